#!/venv/bin/python
"""CLI:  ./check <id> --tier quick|thorough [--only sub]   |   ./check <id> --replay <file>
exit 0 = property held on everything explored (KNOWN-FINDING lines allowed)
exit 1 = VIOLATION line(s) printed          exit 2 = harness error (never a property verdict)"""
import argparse
import glob
import importlib
import json
import os
import sys
import time

HERE = os.path.dirname(os.path.abspath(__file__))
sys.path.insert(0, HERE)
os.environ.setdefault("MPLBACKEND", "Agg")
os.environ.setdefault("PYTHONHASHSEED", "0")
os.environ.setdefault("OMP_NUM_THREADS", "1")
os.environ.setdefault("OPENBLAS_NUM_THREADS", "1")
# The process time zone is an environment answer the harness owns: every check runs away from UTC (zone picked by
# VERIF_SEED), so that a calendar conversion that silently used local time would differ from the integer reference
# calendar.  Without tzdata the zone name is ignored by libc and the run is simply in UTC.
if "VERIF_MC_TZ" in os.environ:
    os.environ["TZ"] = os.environ["VERIF_MC_TZ"]
else:
    try:
        _seed = int(os.environ.get("VERIF_SEED", "0"))
    except ValueError:
        _seed = 0
    os.environ["TZ"] = ("Pacific/Auckland", "America/Vancouver", "Asia/Kolkata")[_seed % 3]
time.tzset()


def find_module(pid):
    pid = pid.upper()
    hits = glob.glob(os.path.join(HERE, "checks", pid.lower() + "_*.py"))
    if not hits:
        print("no check module for %s" % pid)
        sys.exit(2)
    return "checks." + os.path.basename(hits[0])[:-3]


def main():
    ap = argparse.ArgumentParser()
    ap.add_argument("pid")
    ap.add_argument("--tier", default=None)
    ap.add_argument("--only", default=None)
    ap.add_argument("--replay", default=None)
    ap.add_argument("--jobs", type=int, default=None)
    a = ap.parse_args()
    tier = os.environ.get("VERIF_TIER") or a.tier or "quick"
    if tier not in ("quick", "thorough"):
        tier = "quick"
    if a.jobs:
        os.environ["VERIF_MC_JOBS"] = str(a.jobs)
    from mc import core
    core.bind_repo()
    mod = importlib.import_module(find_module(a.pid))
    t0 = time.time()
    if a.replay:
        rec = json.load(open(a.replay))
        still = mod.replay(rec)
        if still:
            print("VIOLATION property=%s replay=%s" % (mod.PID, a.replay))
            for s in still:
                print("   still fails: %s" % (s,))
            sys.exit(1)
        print("replay: no longer fails")
        sys.exit(0)
    try:
        subs = mod.run(tier, only=a.only)
    except core.E1.HarnessError as e:
        print("HARNESS-ERROR: %s" % e)
        sys.exit(2)
    rc = core.finish(mod.PID, mod.LEVEL, tier, subs, t0, assumptions=getattr(mod, "ASSUMPTIONS", ()),
                     technique=getattr(mod, "TECHNIQUE", ""))
    sys.stdout.flush()
    sys.exit(rc)


if __name__ == "__main__":
    main()
