#!/venv/bin/python
"""Runs the mutant catalogue: for each entry a scratch worktree of /repo HEAD gets the one edit, the repository's own test suite is run
there, then the property's quick check (VERIF_MC_REPO=<worktree>).  Results: mutants/results.json.  usage: mutant_campaign.py [lanes] [ids...]"""
import json, os, subprocess, sys, time
from concurrent.futures import ThreadPoolExecutor
sys.path.insert(0, "/verif")
from mutants.catalogue import M

def run(m):
    wt = "/tmp/wt/mut-%s" % m["id"]
    out = "/tmp/wt/mut-%s-out" % m["id"]
    subprocess.run(["rm", "-rf", wt, out])
    subprocess.run(["git", "-C", "/repo", "worktree", "add", "-q", "--detach", wt, "HEAD"], check=True)
    res = {"id": m["id"], "property": m["property"], "file": m["file"], "what": m["what"]}
    try:
        path = os.path.join(wt, m["file"])
        s = open(path, encoding="latin-1").read()
        n = s.count(m["old"])
        if n != 1:
            res["status"] = "not-applicable: old text occurs %d times" % n
            return res
        open(path, "w", encoding="latin-1").write(s.replace(m["old"], m["new"]))
        t0 = time.time()
        r = subprocess.run(["/venv/bin/python", "-m", "pytest", "-q", "-p", "no:cacheprovider", "--timeout=900", "-x", "verif/tests"], cwd=wt, capture_output=True, text=True)
        res["repo_tests_pass"] = r.returncode == 0
        res["repo_tests"] = r.stdout.strip().split("\n")[-1][:120]
        os.makedirs(out, exist_ok=True)
        env = dict(os.environ, VERIF_MC_REPO=wt, VERIF_MC_OUT=out, VERIF_MC_JOBS=os.environ.get("MUT_JOBS", "8"))
        c = subprocess.run(["/verif/check", m["property"], "--tier", "quick"], cwd="/verif", capture_output=True, text=True, env=env)
        res["check_rc"] = c.returncode
        res["killed"] = c.returncode == 1 and "VIOLATION" in c.stdout
        loci = [l.split("locus=")[1].split(" deviations")[0] for l in c.stdout.split("\n") if "locus=" in l]
        res["loci"] = loci[:3]
        if c.returncode == 2:
            res["harness"] = [l for l in c.stdout.split("\n") if "HARNESS" in l][:2]
        res["wall_s"] = round(time.time() - t0, 1)
        res["status"] = "done"
    finally:
        subprocess.run(["git", "-C", "/repo", "worktree", "remove", "--force", wt])
        subprocess.run(["rm", "-rf", out])
    return res

def main():
    lanes = int(sys.argv[1]) if len(sys.argv) > 1 else 3
    ids = set(sys.argv[2:])
    todo = [m for m in M if not ids or m["id"] in ids]
    path = "/verif/mutants/results.json"
    old = {r["id"]: r for r in json.load(open(path))} if os.path.exists(path) else {}
    with ThreadPoolExecutor(lanes) as ex:
        for r in ex.map(run, todo):
            old[r["id"]] = r
            print(r["id"], r.get("status"), "tests_pass=%s" % r.get("repo_tests_pass"), "killed=%s" % r.get("killed"), (r.get("loci") or [""])[0][:80], flush=True)
            json.dump([old[k] for k in sorted(old)], open(path, "w"), indent=1)
    head = subprocess.run(["git", "-C", "/repo", "rev-parse", "--short", "HEAD"], capture_output=True, text=True).stdout.strip()
    print("repo HEAD", head)

if __name__ == "__main__":
    main()
