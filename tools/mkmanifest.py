#!/venv/bin/python
"""Regenerates MANIFEST.json from the table below (keeps it schema-valid)."""
import json, os, subprocess, sys
HERE = os.path.dirname(os.path.dirname(os.path.abspath(__file__)))
props = [json.loads(l) for l in open(os.path.join(HERE, "properties.jsonl"))]

CHECKS = {
 "C07": dict(level="exploration", design="5/C07",
   technique="bounded exhaustive enumeration (stateless choice-tree explorer E1), complete over order types, against a Python-comparison reference model",
   text="Every (bin type, threshold list of length <=3 incl. duplicates and non-increasing, value order-type incl. NaN and +-inf, scalar/array form) combination is executed on the real Interval.within, util.apply_threshold, util.get_intervals, util.apply_threshold_prob and Contingency._compute_abcd, under 3 monotone embeddings; the documented event is decided by plain Python comparisons and all sites are cross-checked. Within this alphabet the verdict is exhaustive; since only order relations enter the code, the small scope is complete for <=3 thresholds.",
   note="trusts: Python float comparison; that only the order type of a value matters (validated by 3 embeddings); 0-d arrays are not a supported input form"),
 "C19": dict(level="exploration", design="5/C19",
   technique="bounded exhaustive enumeration (stateless choice-tree explorer E1): full cross product metric x -x x output type, plus -r/-q/-b/-agg variants, through the real driver",
   text="Every cell of (70 metrics + 28 diagrams) x (19 -x values + default) x output types (quick: csv/text/plot on one dataset shape; thorough: all 8 types on 4 shapes incl. single time, single location, an all-missing slice) and a variant grid (-r, -q, 8 bin types, 16 aggregators) is executed in-process through verif.driver.run; each outcome is classified ok / SystemExit-with-message / crash, and any crash is a violation keyed by crash site. The grid is the property's own quantifier, so within the generated datasets the verdict is exhaustive.",
   note="trusts: the generated small datasets are representative of 'well-formed'; plots are written with -f (no interactive window); cartopy backgrounds are not installed"),
 "C18": dict(level="model_checking", design="5/C18", e2=True,
   technique="explicit-state breadth-first search (E2) over the real Data object to a fixpoint, canonical state = object-graph fingerprint incl. aliasing partition; every transition compared with a freshly built dataset and the reference dataset model; merges validated by depth-1 bisimulation",
   text="The real verif.data.Data object is driven by get_scores request events on 2-input 2x2x2 partly-missing datasets in four configurations (plain, -obsrange, one input without observations, climatology). Quick: fixpoint over a 12-request colliding menu (4096 states / 49152 transitions) plus 8-request menus for the other configurations, all histories of length <=2 over a 40-request menu, and whole commands repeated in-process and in fresh subprocesses under 3 hash seeds. Thorough: 16-request fixpoint (65536 states), 12-request menus for the other configurations, length <=2 over 108 requests and length <=3 over 40. Reaching the fixpoint means the verdict covers request histories of any length over the menu. Invariants: answer == fresh dataset's answer == reference model's answer; arrays returned earlier never change; input objects never change.",
   note="trusts: the canonical form (validated by bisimulation on merges: first 1000 in quick, all for menus <=12 in thorough); menus rather than all possible requests; MemInput subclass of verif.input.Input as the input driver"),
 "C01": dict(level="exploration", design="5/C01",
   technique="bounded exhaustive enumeration (E1): full products (2^16 missingness patterns; coverage subsets) and deviation-bounded choice trees over 1-4 inputs + climatology, on the real Data object and the CLI, against the reference dataset model",
   text="All 65536 missingness patterns of 2 inputs x {obs,fcst} x 4 cases; the full product of per-input coverage subsets (with and without an observation field, inputs stored in mutually different orders) through in-memory inputs and through text files + driver (-m mae|obs -agg mean|count); and dev(2) (thorough dev(3), 1-4 inputs) over coverage, observation presence, climatology mode (none/subtract/divide, zero divisor), one missing cell per (file, field, case) of obs/fcst/pit/cdf/quantile fields. Every execution issues every request (9 field combinations x inputs x 7 axes x all slices) and compares with the reference model; it also checks identical case sets / observation values across inputs and the differential pair 'replace one input's forecasts -> the other inputs' answers are bit-identical'.",
   note="trusts: mc/ref/dataset.py (appendix B of DESIGN.md) as the reading of 'fair comparison'; small scope 2x1x2 / 2x2x2 grids; files that disagree on observation values are left to C02"),
 "C02": dict(level="exploration", design="5/C02",
   technique="bounded exhaustive enumeration (E1) of all row / dimension-entry / column / command-line-order permutations on the real readers, Data object and CLI against a coordinate-keyed reference",
   text="All 8! row orders of a text file (6! of a sparse one) with the other input in a different order and with observations that differ between the files; all 72^2 joint permutations of the dimension entries of two in-memory inputs with extra entries, each under no option / -d / -tod / -t (NetCDF: dev(2) over the six permutations in quick, 72^2 in thorough); a repeated dimension value at every position (first occurrence wins, warning printed); all N! command-line orders of 2-3 (thorough 4) files x 4 metrics x 4 axes through the CLI; 720 x 6 x 2 column orders of the text header. Oracle: each cell of get_scores(All) and each sliced request equals the value the input's own file stores at those coordinates.",
   note="trusts: mc/ref/dataset.py; default thresholds (derived from the first file by design) are avoided by explicit -r"),
 "C03": dict(level="model_checking", design="5/C03", e2=True,
   technique="explicit-state BFS (E2) over the lattice of subsetting-option sets through the real driver (state = option set, transitions executed in path order, merged orders must have printed the same output), plus bounded exhaustive enumeration (E1) of option combinations on the Data API, against the reference selection model",
   text="Two inputs (+ climatology) in mutually different orders with different coverage, 6 init times over 2 days at 00/06/12 UTC, 3 lead times, 4 stations with distinct id/lat/lon/elev. E1: each of -t -d -tod -o -l -lx -latrange -lonrange -elevrange in {absent, strict subset, end points equal to a station's coordinate / partially matching, matches nothing} plus -obsrange, dev(3) in quick and the full 4^9 product in thorough, on verif.data.Data: selected times/lead times/locations and every request compared with the reference; empty selections must be rejected or give no finite number. E2: BFS from the empty command line, event = add one option; every transition runs the driver (--list-times/--list-locations, -m mae csv, -m fcst -x leadtime csv) and is compared with the reference; option sets up to size 3 (thorough 4).",
   note="trusts: mc/ref/dataset.py selection semantics (appendix B steps 1-3, 6); whole-hour init times; repeated flags excluded"),
 "C04": dict(level="exploration", design="5/C04",
   technique="bounded exhaustive enumeration (E1) of every (input, field, cell, missing-value encoding) deviation and pairs of cells through the real text / NetCDF readers, against the reference dataset model, a metamorphic canonical-form oracle over all metrics, and a request-recording proxy that decides which slices must be NaN",
   text="2 inputs x 11 fields (obs fcst pit cdf quantile ensemble other) x 8 cells x every encoding (text: -999, -999.0, nan, NA, na, '.', absent row; NetCDF: NaN, -999, default-fill mask, explicit _FillValue that is an ordinary number, 1e31): all single deviations, all pairs over a field subset, plus whole slice / whole field / whole input missing. Each execution compares 13 request sets x 4 axes with the reference model, requires all ~70 metrics x 3 axes x 2 inputs to equal their value on the canonical in-memory dataset (field missing in every input), and requires NaN wherever one of the metric's own requests (recorded by a transparent proxy) has no valid case.",
   note="trusts: mc/ref/dataset.py; metric formulas are decided by C05/C06/C08; inf/1e31 tokens in text files are outside the documented text encodings"),
 "C05": dict(level="exploration", design="5/C05",
   technique="bounded exhaustive enumeration (E1) of all obs/fcst vector pairs up to a length over a colliding 5-value alphabet (+ NaN at every position), 22 metrics x 18 aggregators, against plain-Python textbook formulas (fractions for zero tests); perfect-score and better-than-perfect relations on every vector",
   text="All 16276 (thorough 406901) vector pairs of length 0..3 (0..4) over {-1, 0, 1/2, 1, 2} x seed-dependent scale, with a NaN injected at every position of short vectors: 22 deterministic metrics through compute_from_obs_fcst, the 7 aggregator-aware ones with all 14 named aggregators and 4 quantile levels, 'within' with 3 intervals; for short vectors the same through Metric.compute on a Data object on axes no / obs / fcst with intervals plus the raw-field metrics obs/fcst; all 5625 3-pair files through the command line (-m <metric> -x no -type csv). Undefined definitions must give NaN/non-finite; a forecast identical to the observations must attain the perfect score; no explored forecast may score better than perfect.",
   note="trusts: mc/ref/metrics_det.py; population std; type-7 quantiles; LEPS with either <= or < empirical CDF; aggregating elementwise-undefined values with a non-mean statistic is not specified and not judged"),
 "C06": dict(level="exploration", design="5/C06",
   technique="bounded exhaustive enumeration (E1) of all 2x2 tables up to a total (ints, numpy ints, floats) and all short obs/fcst vectors over an order-type alphabet incl. NaN, 25 metrics x 8 bin types, against exact-fraction formulas; swap / complement symmetries and perfect-forecast relation on every case; realised tables through the CLI",
   text="Every table with 1<=total<=8 (thorough 20) in 4 number forms through compute_from_abcd; every vector pair of length <=2 (thorough 3) over {0, 1, 1.5, 2, 3, NaN} against thresholds (1,2) for all 8 bin types through _compute_abcd and compute_from_obs_fcst: counts equal the documented events over exactly the valid pairs, sum = number of valid pairs, swapping obs/fcst swaps b and c, complementing the event swaps a and d, perfect forecasts attain the perfect value where defined, undefined scores are NaN; every table with total<=4 (thorough 7) realised as a text file whose event / non-event values sit on the threshold wherever the bin type allows, plus a pair with a missing forecast, through -m <metric> -r .. -b .. -type csv.",
   note="trusts: mc/ref/metrics_cat.py; numpy's masked constant is accepted as NaN; the all-zero table only through empty vectors"),
 "C08": dict(level="exploration", design="5/C08",
   technique="bounded exhaustive enumeration (E1) of probability/observation vectors (incl. 0, 1, bin edges, constant observations) and of small probabilistic datasets (stored vs ensemble-derived thresholds and quantile levels, 8 bin types, missing cells and members) against plain-Python reference definitions on the reference dataset model's valid cases",
   text="Formula level: all (p, o) vectors of length <=3 (thorough 4) over p in {0,.05,.1,.25,.3,.5,.95,1} x o in {0,1} through compute_from_obs_fcst of bs, bsrel, bsres, bsunc, bss, bssrel, bssres, with the identities BS = REL - RES + UNC (one p per bin) and BS(event) = BS(complement). Data level (in-memory, text and NetCDF inputs): a file storing cdf columns at thresholds {1,3}, quantile columns {.1,.9}, three members and pit; requests at stored and non-stored thresholds / levels (ensemble fraction <= t, type-9 quantile), all 8 bin types, dev(1) (thorough dev(2)) over missing cells incl. single members: get_p (event probability P(<=upper) - P(<=lower), observed event), bs family, ign0, spherical, marginalratio, threshold, quantilescore, quantile, quantilecoverage, spread, spreadskillratio, pit, pithistdev/slope/shape on axes no / leadtime / location.",
   note="trusts: mc/ref/metrics_prob.py and mc/ref/dataset.py; a quantile from an ensemble with a missing member may be missing; mutually inconsistent stored/ensemble CDFs (negative event probabilities) are not generated"),
 "C11": dict(level="exploration", design="5/C11",
   technique="exhaustive enumeration (E1): every calendar day 1900-2100 for the date / unix-time / date-number conversions, every day 1970-2100 x 3 times of day for the 8 time buckets, every quarter-hour lead time 0-72 h, and every small subset of 16 boundary instants as a dataset on all 15 axes (API and CLI), against an integer-arithmetic calendar and the reference dataset model",
   text="Conversions: all 73414 days, mutual inverses and agreement with civil-from-days arithmetic that does not use datetime. Buckets: all 47847 days x {00:00:00, 06:00, 23:59:59} for year, month, Monday-based week, day, time of day, day of year, day of month, month of year; lead-time day for 289 lead times. Datasets: all 696 (thorough 2516) subsets of size <=3 (4) of boundary instants (year ends, leap days in 2000/2016, Feb 28 -> Mar 1 in 2001 and 2100, Sunday 23 h / Monday 0 h, 1970-01-01, 2038) with lead times 0/23/24 h, 2 stations, 2 inputs in different orders, partly missing: axis values, every slice's cases, the union of slices = pooled cases, and through -x <axis> -type csv the counts, count-weighted mean and labels.",
   note="trusts: mc/ref/calendar.py; either reading of 'day of year' accepted; time-like labels' text format is C12's subject"),
 "C12": dict(level="exploration", design="5/C12",
   technique="bounded exhaustive enumeration (E1): full product of inputs x metric x axis x {csv,text} x -f/-leg/-acc through the real driver; the printed table is parsed back and every header field, row label and number is compared with reference scores rounded to the documented precision",
   text="N in {1,2,3} inputs x 10 metrics (thorough 19) x 16 data dimensions plus threshold / obs / fcst axes with -r (-q) lists in non-ascending order x {csv,text} x -f x -leg x -acc: 8448 command lines (quick). Checked: column count, one column per input in command-line order named by file or legend, one row per slice in axis order (as given for thresholds), leading fields (date integer groups, lead time, id/lat/lon/elev, threshold), every number against the reference dataset model + reference metric definition to 6 (csv) / 4 (text) significant digits and not printed with more digits, -f file == screen output and nothing on screen, -acc = running sums with missing scores counted as 0. Also the obsfcst table (obs column, forecast and quantile columns per input, 2 aggregators) and that the 26 diagrams without a table form refuse -type text|csv with an error.",
   note="trusts: mc/ref/scores.py and the reference metric modules; formatted dates compared by integer groups; fss table only via C19"),
 "C14": dict(level="exploration", design="5/C14",
   technique="bounded exhaustive enumeration (E1, deviation-bounded) of input / climatology coverage, storage order and missingness under -c and -C on the real Data object and CLI, against the reference anomaly pipeline, a metamorphic 'climatology as an extra input' oracle and naming invariants",
   text="1-2 inputs (stored in different orders) + a climatology file whose coverage subset and order, missing cells (inputs' obs/fcst, climatology), a zero value (for -C) and a value equal to the observation are deviations: dev(2) (thorough dev(3)) x {-c, -C}. Each execution: 4-5 request sets x 5 axes against the reference (value - / climatology forecast at the same time, lead time, location; missing or non-finite dropped for every input; pit untouched), 9 metrics x 3 axes x inputs against reference definitions, mae/rmse/bias/stderror under -c equal to the columns obtained when the climatology is given as an additional input, num_inputs / names / legend never include the climatology (also when the caller's list of inputs is reused for a second dataset). CLI: -c/-C with mae, bias, fcst on 3 axes, csv columns and values.",
   note="trusts: mc/ref/dataset.py appendix B step 7; obs-only scores are not judged when an input forecast is missing (undocumented)"),
}

def main():
    checks = []
    for pid in sorted(CHECKS):
        c = CHECKS[pid]
        checks.append({
            "property_id": pid,
            "quick_cmd": "./check %s --tier quick" % pid,
            "thorough_cmd": "./check %s --tier thorough" % pid,
            "evidence_file": "/verif/evidence/%s.json" % pid,
            "replay_cmd_template": "./check %s --replay {path}" % pid,
            "engine": c.get("engine", "mc"),
            "level_claimed": {"category": c["level"], "text": c["text"], "design_ref": c["design"]},
            "level_note": c["note"],
            "technique": c["technique"],
        })
    na = [{"property_id": p["id"], "reason": NA.get(p["id"], "check not built yet (work in progress; will be claimed once its check is committed)")}
          for p in props if p["id"] not in CHECKS]
    m = {"version": 1,
         "setup_cmd": "/venv/bin/python -m compileall -q mc checks check.py",
         "hooks": {"guard": "VERIF_MC_HOOKS",
                   "enable": "none needed: verif is an editable install in /venv, so the checks import /repo's working tree directly; no instrumentation was added to /repo",
                   "baseline_off_cmd": "cd /repo && /venv/bin/python -m pytest -ra -q -p no:cacheprovider --timeout=900 --continue-on-collection-errors",
                   "source_commits": [], "add_only": True},
         "engines": [
           {"name": "E1", "path": "mc/explore.py", "serves_properties": sorted(CHECKS), "kind_free_text": "stateless choice-point explorer: prefix replay, full / deviation-bounded enumeration of the harness' choice tree on the real code, sharded over 16 processes"},
           {"name": "E2", "path": "mc/bfs.py", "serves_properties": [p for p in sorted(CHECKS) if CHECKS[p].get("e2")], "kind_free_text": "explicit-state breadth-first search over the real transition function with canonical-state hashing, fixpoint detection and depth-1 bisimulation validation of every merge"}],
         "checks": checks,
         "notes": "All checks run /venv/bin/python against /repo's working tree (editable install). See DESIGN.md.",
         "not_applicable": na}
    path = os.path.join(HERE, "MANIFEST.json")
    json.dump(m, open(path, "w"), indent=1)
    r = subprocess.run(["python3-vt", "-c", "import json,jsonschema;jsonschema.validate(json.load(open('%s')),json.load(open('%s/schemas/MANIFEST.schema.json')))" % (path, HERE)], capture_output=True, text=True)
    print("MANIFEST valid" if r.returncode == 0 else r.stderr[-500:])

NA = {}
if __name__ == "__main__":
    main()
