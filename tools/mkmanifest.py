#!/venv/bin/python
"""Regenerates MANIFEST.json from the table below (keeps it schema-valid)."""
import json, os, subprocess, sys
HERE = os.path.dirname(os.path.dirname(os.path.abspath(__file__)))
props = [json.loads(l) for l in open(os.path.join(HERE, "properties.jsonl"))]

CHECKS = {
 "C07": dict(level="exploration", design="5/C07",
   technique="bounded exhaustive enumeration (stateless choice-tree explorer E1), complete over order types, against a Python-comparison reference model",
   text="Every (bin type, threshold list of length <=3 incl. duplicates and non-increasing, value order-type incl. NaN and +-inf, scalar/array form) combination is executed on the real Interval.within, util.apply_threshold, util.get_intervals, util.apply_threshold_prob and Contingency._compute_abcd, under 3 monotone embeddings; the documented event is decided by plain Python comparisons and all sites are cross-checked. Within this alphabet the verdict is exhaustive; since only order relations enter the code, the small scope is complete for <=3 thresholds.",
   note="trusts: Python float comparison; that only the order type of a value matters (validated by 3 embeddings); 0-d arrays are not a supported input form"),
 "C19": dict(level="exploration", design="5/C19",
   technique="bounded exhaustive enumeration (stateless choice-tree explorer E1): full cross product metric x -x x output type, plus -r/-q/-b/-agg variants, through the real driver",
   text="Every cell of (70 metrics + 28 diagrams) x (19 -x values + default) x output types (quick: csv/text/plot on one dataset shape; thorough: all 8 types on 4 shapes incl. single time, single location, an all-missing slice) and a variant grid (-r, -q, 8 bin types, 16 aggregators) is executed in-process through verif.driver.run; each outcome is classified ok / SystemExit-with-message / crash, and any crash is a violation keyed by crash site. The grid is the property's own quantifier, so within the generated datasets the verdict is exhaustive.",
   note="trusts: the generated small datasets are representative of 'well-formed'; plots are written with -f (no interactive window); cartopy backgrounds are not installed"),
 "C18": dict(level="model_checking", design="5/C18", e2=True,
   technique="explicit-state breadth-first search (E2) over the real Data object to a fixpoint, canonical state = object-graph fingerprint incl. aliasing partition; every transition compared with a freshly built dataset and the reference dataset model; merges validated by depth-1 bisimulation",
   text="The real verif.data.Data object is driven by get_scores request events on 2-input 2x2x2 partly-missing datasets in four configurations (plain, -obsrange, one input without observations, climatology). Quick: fixpoint over a 12-request colliding menu (4096 states / 49152 transitions) plus 8-request menus for the other configurations, all histories of length <=2 over a 40-request menu, and whole commands repeated in-process and in fresh subprocesses under 3 hash seeds. Thorough: 16-request fixpoint (65536 states), 12-request menus for the other configurations, length <=2 over 108 requests and length <=3 over 40. Reaching the fixpoint means the verdict covers request histories of any length over the menu. Invariants: answer == fresh dataset's answer == reference model's answer; arrays returned earlier never change; input objects never change.",
   note="trusts: the canonical form (validated by bisimulation on merges: first 1000 in quick, all for menus <=12 in thorough); menus rather than all possible requests; MemInput subclass of verif.input.Input as the input driver"),
}

def main():
    checks = []
    for pid in sorted(CHECKS):
        c = CHECKS[pid]
        checks.append({
            "property_id": pid,
            "quick_cmd": "./check %s --tier quick" % pid,
            "thorough_cmd": "./check %s --tier thorough" % pid,
            "evidence_file": "/verif/evidence/%s.json" % pid,
            "replay_cmd_template": "./check %s --replay {path}" % pid,
            "engine": c.get("engine", "mc"),
            "level_claimed": {"category": c["level"], "text": c["text"], "design_ref": c["design"]},
            "level_note": c["note"],
            "technique": c["technique"],
        })
    na = [{"property_id": p["id"], "reason": NA.get(p["id"], "check not built yet (work in progress; will be claimed once its check is committed)")}
          for p in props if p["id"] not in CHECKS]
    m = {"version": 1,
         "setup_cmd": "/venv/bin/python -m compileall -q mc checks check.py",
         "hooks": {"guard": "VERIF_MC_HOOKS",
                   "enable": "none needed: verif is an editable install in /venv, so the checks import /repo's working tree directly; no instrumentation was added to /repo",
                   "baseline_off_cmd": "cd /repo && /venv/bin/python -m pytest -ra -q -p no:cacheprovider --timeout=900 --continue-on-collection-errors",
                   "source_commits": [], "add_only": True},
         "engines": [
           {"name": "E1", "path": "mc/explore.py", "serves_properties": sorted(CHECKS), "kind_free_text": "stateless choice-point explorer: prefix replay, full / deviation-bounded enumeration of the harness' choice tree on the real code, sharded over 16 processes"},
           {"name": "E2", "path": "mc/bfs.py", "serves_properties": [p for p in sorted(CHECKS) if CHECKS[p].get("e2")], "kind_free_text": "explicit-state breadth-first search over the real transition function with canonical-state hashing, fixpoint detection and depth-1 bisimulation validation of every merge"}],
         "checks": checks,
         "notes": "All checks run /venv/bin/python against /repo's working tree (editable install). See DESIGN.md.",
         "not_applicable": na}
    path = os.path.join(HERE, "MANIFEST.json")
    json.dump(m, open(path, "w"), indent=1)
    r = subprocess.run(["python3-vt", "-c", "import json,jsonschema;jsonschema.validate(json.load(open('%s')),json.load(open('%s/schemas/MANIFEST.schema.json')))" % (path, HERE)], capture_output=True, text=True)
    print("MANIFEST valid" if r.returncode == 0 else r.stderr[-500:])

NA = {}
if __name__ == "__main__":
    main()
