#!/venv/bin/python
"""Prints the sub-agent prompt for a property id (property text only; nothing else from /verif)."""
import json, sys
pid = sys.argv[1]
wt = "/tmp/wt/%s" % pid
p = [json.loads(l) for l in open('/verif/properties.jsonl') if json.loads(l)['id'] == pid][0]
print(f"""You are helping to evaluate a verification tool by seeding realistic bugs into a Python project.

The project is WFRT/verif (a command-line tool that computes weather-forecast verification scores from NetCDF/text files and plots them). You have your own scratch git worktree of it at {wt} (already created; work ONLY there; never touch /repo or /verif or any other directory except {wt} and {wt}-out). Use /venv/bin/python. When you run python from inside {wt}, `import verif` resolves to the worktree's code. The project's test suite is run with:
    cd {wt} && /venv/bin/python -m pytest -q -p no:cacheprovider --timeout=900 verif/tests
(it takes about 80 s and all 182 tests pass on the unmodified worktree). There is no network.

Here is a semantic property that the project is supposed to satisfy:

  Title: {p['title']}
  Statement: {p['statement']}
  Quantified over: {p['quantifier']['text']}
  Code it is anchored in: {', '.join(p['anchors']['files'])}

YOUR TASK: produce TWO different, independent, realistic source changes to the project (not to its tests), each of which BREAKS this property while the project still imports/compiles and its ENTIRE existing test suite still passes. Each change should look like a plausible programmer mistake or an innocent-looking refactoring/optimisation (a few lines), not sabotage. Prefer changes that need something specific to manifest — an unusual input, a particular combination of options, a multi-step sequence of operations, a particular ordering, or two cooperating sites that each look fine alone — rather than ones that any ordinary use would expose at once. The two changes should be in different mechanisms (different functions or different code paths).

For each change k in (1, 2) deliver, in the directory {wt}-out (create it):
  - patch{{k}}.diff : `git diff` of the change against the worktree's HEAD (only that one change applied; it must apply cleanly with `git apply` to a clean checkout of HEAD)
  - demo{{k}}.py : a small stand-alone program (run as `cd <checkout> && /venv/bin/python {wt}-out/demo{{k}}.py`, using only the project's public behaviour: its Python API or verif.driver.run([...]) on files the demo writes itself into a temporary directory) that exits 0 on the unmodified code and exits 1 (printing what went wrong) with the change applied. It must check behaviour that the property statement promises, not an implementation detail.
  - note{{k}}.md : 5-10 lines: what the change is, why it violates the property, what is needed for it to manifest, and the exact commands you ran.
You must actually verify, for each change: (a) demo passes on clean HEAD, (b) demo fails with the patch, (c) the full test suite passes with the patch applied. NEVER use `git stash` (the stash is shared by all worktrees of this repository and other people work in sibling worktrees): to test on clean HEAD save `git diff` to a file, `git checkout -- .`, test, then `git apply` the file again. Leave the worktree clean (git checkout -- . ) at the end. If after a serious effort you can only produce one such change, deliver one and say so.

Finish by replying with a short summary of the two changes (files/functions touched, what is needed to trigger them) and confirmation of (a), (b), (c).""")
