#!/bin/sh
# usage: tools/coverage_gaps.sh [ids...]   -- diagnostic, not a check: runs the quick tier of every check under line coverage of
# /repo/verif and /repo/scripts (all worker processes included) and writes the lines of the tree under test that NO check executes to
# /dev/shm/verif-cov/missing.txt.  A line no check executes is behaviour no check explores: a change there cannot be detected.
ROOT=${VERIF_ROOT:-$(cd "$(dirname "$0")/.." && pwd)}
W=/dev/shm/verif-cov; rm -rf $W; mkdir -p $W/data $W/out
ids="$@"; [ -z "$ids" ] && ids="C01 C02 C03 C04 C05 C06 C07 C08 C09 C10 C11 C12 C13 C14 C15 C16 C17 C18 C19 C20"
cd "$ROOT"
for id in $ids; do
  PYTHONHASHSEED=0 MPLBACKEND=Agg OMP_NUM_THREADS=1 OPENBLAS_NUM_THREADS=1 VERIF_MC_OUT=$W/out \
    /venv/bin/python -m coverage run --rcfile=$ROOT/tools/coveragerc check.py $id --tier quick > $W/$id.log 2>&1
  echo "$id rc=$? $(tail -1 $W/$id.log | cut -c1-150)"
done
cd $W && /venv/bin/python -m coverage combine --rcfile=$ROOT/tools/coveragerc -q
/venv/bin/python -m coverage report --rcfile=$ROOT/tools/coveragerc -m > $W/missing.txt 2>&1
/venv/bin/python -m coverage json --rcfile=$ROOT/tools/coveragerc -o $W/coverage.json -q
tail -30 $W/missing.txt | cut -c1-120
