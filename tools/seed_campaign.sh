#!/bin/sh
# runs every inbox seed against its property's quick check on a scratch worktree; results in seeded/_results/
mkdir -p ${RESULTS:-/verif/seeded/_results}
for p in "$@"; do
  for k in 1 2; do
    patch=${INBOX:-/verif/seeded/_inbox}/$p/patch$k.diff
    [ -f ${INBOX:-/verif/seeded/_inbox}/$p/patch$k.rebased.diff ] && patch=${INBOX:-/verif/seeded/_inbox}/$p/patch$k.rebased.diff
    /verif/tools/seedtest_copy.sh $patch $p quick > ${RESULTS:-/verif/seeded/_results}/$p-$k.txt 2>&1
  done
done
