#!/bin/sh
# runs every inbox seed against its property's quick check on a scratch worktree; results in seeded/_results/
mkdir -p /verif/seeded/_results
for p in "$@"; do
  for k in 1 2; do
    patch=/verif/seeded/_inbox/$p/patch$k.diff
    [ -f /verif/seeded/_inbox/$p/patch$k.rebased.diff ] && patch=/verif/seeded/_inbox/$p/patch$k.rebased.diff
    /verif/tools/seedtest_copy.sh $patch $p quick > /verif/seeded/_results/$p-$k.txt 2>&1
  done
done
