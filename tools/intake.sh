#!/bin/sh
# usage: tools/intake.sh <PID> [wave-tag]  -- takes a finished sub-agent's deliveries (/tmp/wt/<PID>-out) into seeded/_inbox<tag>/<PID>,
# removes its worktree, confirms both changes in scratch worktrees and runs the property's quick check against each.
pid="$1"; tag="${2:-7}"
ROOT=${VERIF_ROOT:-$(cd "$(dirname "$0")/.." && pwd)}
INBOX=$ROOT/seeded/_inbox$tag; RESULTS=$ROOT/seeded/_results$tag; export INBOX RESULTS
mkdir -p $INBOX/$pid $RESULTS
cp /tmp/wt/$pid-out/patch*.diff /tmp/wt/$pid-out/demo*.py /tmp/wt/$pid-out/note*.md $INBOX/$pid/ 2>/dev/null
git -C /repo worktree remove --force /tmp/wt/$pid 2>/dev/null; rm -rf /tmp/wt/$pid-out /tmp/wt/prompt-$pid.txt
for k in 1 2; do
  [ -f $INBOX/$pid/patch$k.diff ] || continue
  # the demos were written for /tmp/wt/<PID>-out; they locate the checkout through the working directory
  echo "$pid-$k: $($ROOT/tools/confirm_seed.sh $pid $k)"
done
$ROOT/tools/seed_campaign.sh $pid
for k in 1 2; do [ -f $RESULTS/$pid-$k.txt ] && { echo "--- $pid-$k"; head -8 $RESULTS/$pid-$k.txt | cut -c1-220; }; done
