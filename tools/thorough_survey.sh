#!/bin/sh
# usage: tools/thorough_survey.sh [ids...]  -- runs thorough tiers one after the other into a scratch output directory
# (evidence/ is left alone), with a ceiling on every exploration; prints one line per sub-check with its wall time and caps
out=${SURVEY_OUT:-/tmp/thorough-out}; mkdir -p $out
cd /verif
for p in "$@"; do
  t0=$(date +%s)
  VERIF_MC_OUT=$out VERIF_MC_MAX_CAP=${VERIF_MC_MAX_CAP:-1200} ./check $p --tier thorough > $out/$p.log 2>&1; rc=$?
  echo "== $p rc=$rc wall=$(( $(date +%s) - t0 ))s"
  grep -E "^$p/|^VIOLATION|^KNOWN|HARNESS" $out/$p.log | sed -E 's/engine=.*bound=/ /' | cut -c1-200
done
