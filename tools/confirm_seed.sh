#!/bin/sh
# usage: tools/confirm_seed.sh <PID> <k>  : confirm a sub-agent's seeded change in a scratch worktree of /repo HEAD
pid="$1"; k="$2"
inbox=${INBOX:-/verif/seeded/_inbox}/$pid
wt=/tmp/wt/confirm-$pid-$k
log=$inbox/confirm$k.log
rm -rf "$wt"; git -C /repo worktree add -q --detach "$wt" HEAD || exit 3
cd "$wt" || exit 3
{
echo "HEAD=$(git rev-parse --short HEAD)"
/venv/bin/python $inbox/demo$k.py > /tmp/confirm-$pid-$k.out 2>&1; a=$?
echo "demo_on_clean_rc=$a"
if git apply $inbox/patch$k.diff; then echo "patch_applies=yes"; else echo "patch_applies=no"; fi
/venv/bin/python $inbox/demo$k.py > /tmp/confirm-$pid-$k.out2 2>&1; b=$?
echo "demo_with_patch_rc=$b"
tail -3 /tmp/confirm-$pid-$k.out2 | cut -c1-300
/venv/bin/python -m pytest -q -p no:cacheprovider --timeout=900 verif/tests > /tmp/confirm-$pid-$k.tests 2>&1; c=$?
echo "tests_with_patch_rc=$c"
tail -1 /tmp/confirm-$pid-$k.tests
if [ "$a" = 0 ] && [ "$b" != 0 ] && [ "$c" = 0 ]; then echo "CONFIRMED"; else echo "NOT-CONFIRMED"; fi
} > "$log" 2>&1
cd /; git -C /repo worktree remove --force "$wt"; rm -f /tmp/confirm-$pid-$k.*
tail -1 "$log"
