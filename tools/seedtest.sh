#!/bin/sh
# usage: tools/seedtest.sh <patch.diff> <PID> [extra check args]   -- applies the patch to /repo, runs the check, always undoes it
patch="$1"; pid="$2"; shift 2
cd /repo || exit 3
if [ -n "$(git status --porcelain --untracked-files=no)" ]; then echo "/repo not clean"; exit 3; fi
git apply "$patch" || { echo "patch does not apply"; exit 3; }
trap 'git -C /repo checkout -- . ' EXIT INT TERM
mkdir -p /tmp/seedtest-out.$$
cd /verif && VERIF_MC_OUT=/tmp/seedtest-out.$$ ./check "$pid" --tier quick "$@" > /tmp/seedtest.$$.log 2>&1
rc=$?
grep -E "^VIOLATION|^KNOWN|HARNESS" /tmp/seedtest.$$.log | cut -c1-220 | head -8
grep -E "^   sub-check" /tmp/seedtest.$$.log | cut -c1-300 | head -4
echo "rc=$rc"
rm -rf /tmp/seedtest.$$.log /tmp/seedtest-out.$$
exit 0
