#!/bin/sh
# usage: tools/run_all.sh quick|thorough   -- runs every registered check on /repo's working tree, one after the other
tier=${1:-quick}
cd /verif
for p in C01 C02 C03 C04 C05 C06 C07 C08 C09 C10 C11 C12 C13 C14 C15 C16 C17 C18 C19 C20; do
  ./check $p --tier $tier > /tmp/run_all.$p.log 2>&1; rc=$?
  echo "$p rc=$rc $(grep -E "^$p: tier" /tmp/run_all.$p.log | cut -c1-150) $(grep -c '^KNOWN' /tmp/run_all.$p.log) known $(grep -c '^VIOLATION' /tmp/run_all.$p.log) violations"
done
