#!/bin/sh
# usage: tools/seedtest_copy.sh <patch.diff> <PID> <tier> [extra args]  -- runs the check against a scratch worktree with the patch
# applied (VERIF_MC_REPO), leaving /repo and /verif/evidence untouched.  Prints the verdict lines.
patch="$1"; pid="$2"; tier="$3"; shift 3
ROOT=${VERIF_ROOT:-$(cd "$(dirname "$0")/.." && pwd)}
tag=$(basename $(dirname "$patch"))-$(basename "$patch" .diff)-$pid
wt=/tmp/wt/st-$tag
out=/tmp/wt/st-$tag-out
rm -rf "$wt" "$out"; git -C /repo worktree add -q --detach "$wt" HEAD || exit 3
( cd "$wt" && git apply "$patch" ) || { echo "patch does not apply"; git -C /repo worktree remove --force "$wt"; exit 3; }
mkdir -p "$out"
cd "$ROOT" && VERIF_MC_REPO="$wt" VERIF_MC_OUT="$out" ./check "$pid" --tier "$tier" "$@" > "$out/log" 2>&1
rc=$?
echo "== $tag tier=$tier rc=$rc"
grep -E "^VIOLATION|^KNOWN|HARNESS" "$out/log" | cut -c1-200 | head -6
grep -E "^   sub-check" "$out/log" | cut -c1-260 | head -3
git -C /repo worktree remove --force "$wt"; rm -rf "$out"
