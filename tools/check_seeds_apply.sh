#!/bin/sh
# every kept seed must still apply to /repo's HEAD (fix: commits in /repo move the context); prints the ones that do not
cd /repo; bad=0
for d in /verif/seeded/C*/; do
  f=$d/patch.diff; [ -f $f ] || continue
  case $d in *neutralised*) continue;; esac
  git apply --check $f 2>/dev/null || { echo "DOES NOT APPLY: $d"; bad=$((bad+1)); }
done
echo "seeds that do not apply: $bad"
