#!/venv/bin/python
"""Moves confirmed sub-agent seeds from seeded/_inbox/<PID>/ to seeded/<PID>-<k>/ with a meta.json, and prints the catches table."""
import json, os, re, shutil, sys
ROOT = "/verif/seeded"
INBOX = sys.argv[1] if len(sys.argv) > 1 else "_inbox"
RESULTS = sys.argv[2] if len(sys.argv) > 2 else "_results"
TAG = sys.argv[3] if len(sys.argv) > 3 else ""
rows = []
for pid in sorted(os.listdir(os.path.join(ROOT, INBOX))):
    d = os.path.join(ROOT, INBOX, pid)
    for k in (1, 2):
        patch = os.path.join(d, "patch%d.diff" % k)
        if not os.path.exists(patch):
            continue
        reb = os.path.join(d, "patch%d.rebased.diff" % k)
        log = open(os.path.join(d, "confirm%d.log" % k)).read() if os.path.exists(os.path.join(d, "confirm%d.log" % k)) else ""
        if "CONFIRMED" not in log or "NOT-CONFIRMED" in log:
            print("skip (not confirmed):", pid, k)
            continue
        res_name = "%s-%d.txt" % (pid, k)
        res = open(os.path.join(ROOT, RESULTS, res_name)).read() if os.path.exists(os.path.join(ROOT, RESULTS, res_name)) else ""
        caught = "rc=1" in res and "VIOLATION" in res
        loci = sorted(set(re.findall(r"sub-check=(\S+) locus=(\S+)", res)))
        out = os.path.join(ROOT, "%s-%s%d" % (pid, TAG, k))
        os.makedirs(out, exist_ok=True)
        shutil.copy(reb if os.path.exists(reb) else patch, os.path.join(out, "patch.diff"))
        if os.path.exists(reb):
            shutil.copy(patch, os.path.join(out, "patch.as-delivered.diff"))
        shutil.copy(os.path.join(d, "demo%d.py" % k), os.path.join(out, "demo.py"))
        note = open(os.path.join(d, "note%d.md" % k)).read()
        open(os.path.join(out, "note.md"), "w").write(note)
        head = re.search(r"HEAD=(\w+)", log)
        files = sorted(set(re.findall(r"^\+\+\+ b/(\S+)", open(os.path.join(out, "patch.diff")).read(), re.M)))
        meta = {
            "property": pid,
            "origin": "independent sub-agent given only the property text and a scratch worktree of /repo",
            "files_changed": files,
            "what_it_needs_to_manifest": " ".join(note.split())[:900],
            "confirmed": {"worktree_head": head.group(1) if head else None,
                          "ran": ["python demo.py on clean worktree -> exit 0", "git apply patch.diff; python demo.py -> exit != 0",
                                  "python -m pytest -q verif/tests with the patch -> all tests pass"],
                          "log": [l for l in log.split("\n") if "=" in l or "passed" in l or "CONFIRMED" in l][:8]},
            "checked_against": "./check %s --tier quick on a scratch worktree with the patch applied (tools/seedtest_copy.sh)" % pid,
            "caught": caught,
            "caught_by": [{"sub_check": a, "locus": b[:160]} for a, b in loci][:6],
        }
        json.dump(meta, open(os.path.join(out, "meta.json"), "w"), indent=1)
        rows.append((pid, k, files, caught, loci[:2]))
print("| seed | files | caught by quick tier | first loci |")
print("|------|-------|----------------------|------------|")
for pid, k, files, caught, loci in rows:
    print("| %s-%s%d | %s | %s | %s |" % (pid, TAG, k, ", ".join(os.path.basename(f) for f in files), "yes" if caught else "NO", "; ".join("%s/%s" % (a, b[:70]) for a, b in loci)))
