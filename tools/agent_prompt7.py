#!/venv/bin/python
"""Wave-7+ sub-agent prompt: agent_prompt.py's text plus one line per change already delivered for this property in earlier waves
(taken from the sub-agents' own notes in seeded/<PID>-*/note.md - descriptions of earlier *changes*, nothing about the checks)."""
import glob, os, re, subprocess, sys
pid = sys.argv[1]
base = subprocess.run(["/venv/bin/python", "/verif/tools/agent_prompt.py", pid], capture_output=True, text=True).stdout
lines = []
for d in sorted(glob.glob("/verif/seeded/%s-*" % pid)):
    try:
        note = open(os.path.join(d, "note.md")).read()
    except OSError:
        continue
    txt = " ".join(note.split())
    txt = re.sub(r"^#+\s*", "", txt)
    lines.append("  - " + txt[:330])
tail = """

IMPORTANT - these changes were already delivered by earlier helpers for this property; do NOT repeat them or close variants of them (same function + same kind of edit). Look for OTHER mechanisms: other functions and code paths the property depends on (including rarely used options, alternative file layouts, helper scripts, interactions between two options, state kept between calls, dtype/precision/shape edge cases, ordering and tie cases, boundary values), and prefer changes whose effect is only visible for specific inputs or combinations:
""" + "\n".join(lines) + "\n"
marker = "Finish by replying"
i = base.index(marker)
print(base[:i] + tail.strip("\n") + "\n\n" + base[i:])
