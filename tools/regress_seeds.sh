#!/bin/sh
# usage: tools/regress_seeds.sh [lanes]   -- every kept seed (seeded/<PID>-*/patch.diff) against its property's quick tier on a scratch
# worktree; one line per seed in seeded/_regress/summary.txt ("caught" = exit 1 with a VIOLATION line)
lanes=${1:-3}
out=/verif/seeded/_regress; mkdir -p $out; : > $out/summary.txt
ls -d /verif/seeded/C*/ | grep -v neutralised | while read d; do
  n=$(basename $d); pid=$(echo $n | cut -d- -f1); echo "$n $pid"
done | xargs -P $lanes -L 1 sh -c '
  n=$0; pid=$1
  res=$(MUT_JOBS=5 VERIF_MC_JOBS=5 /verif/tools/seedtest_copy.sh /verif/seeded/$n/patch.diff $pid quick 2>&1)
  rc=$(echo "$res" | grep -o "rc=[0-9]*" | head -1)
  if echo "$res" | grep -q "^VIOLATION" && [ "$rc" = "rc=1" ]; then v=caught; else v=MISSED; fi
  echo "$n $rc $v" >> /verif/seeded/_regress/summary.txt
'
sort $out/summary.txt -o $out/summary.txt
echo "caught: $(grep -c caught $out/summary.txt)  missed: $(grep -c MISSED $out/summary.txt)"
