#!/bin/sh
# usage: tools/regress_seeds.sh [lanes] [egrep pattern on the seed name]   -- every kept seed (seeded/<PID>-*/patch.diff) against its
# property's quick tier on a scratch worktree; one file per seed in seeded/_regress/, collected into seeded/_regress/summary.txt
# ("caught" = exit 1 with a VIOLATION line)
lanes=${1:-3}
ROOT=${VERIF_ROOT:-$(cd "$(dirname "$0")/.." && pwd)}; export ROOT
pat=${2:-.}
out=$ROOT/seeded/_regress; mkdir -p $out
ls -d $ROOT/seeded/C*/ | grep -v neutralised | grep -E "$pat" | while read d; do
  n=$(basename $d); pid=$(echo $n | cut -d- -f1); echo "$n $pid"
done | xargs -P $lanes -L 1 sh -c '
  n=$0; pid=$1
  res=$(VERIF_MC_JOBS=5 $ROOT/tools/seedtest_copy.sh $ROOT/seeded/$n/patch.diff $pid quick 2>&1)
  rc=$(echo "$res" | grep -o "rc=[0-9]*" | head -1)
  if echo "$res" | grep -q "^VIOLATION" && [ "$rc" = "rc=1" ]; then v=caught; else v=MISSED; fi
  echo "$n $rc $v" > $ROOT/seeded/_regress/$n.res
'
cat $out/*.res | sort > $out/summary.txt
echo "caught: $(grep -c caught $out/summary.txt)  missed: $(grep -c MISSED $out/summary.txt)"
