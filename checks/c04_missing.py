"""C04 - missing data never enters a score as a number.

E1, deviation = one cell of one field of one input made missing in one encoding:
  text    tokens -999, -999.0, nan, NA, na, '.', inf, 1e400, and the row left out altogether
  NetCDF  NaN, -999, masked (default fill), masked (explicit _FillValue that is an ordinary number), 1e31, +inf, -inf
dataset: 2 inputs, 2x2x2 cases, fields obs fcst pit p1 p2 q0.1 q0.9 e0 e1 e2 crps.
Oracles (independent):
 (i)  the reader + Data: every request equals the reference model in which that cell is missing;
 (ii) metamorphic, for ALL metrics x axes: scores of the file with the marked cell == scores of the in-memory
      dataset in which the same field is missing at that case in every input (the canonical form);
 (iii) a slice in which a metric's own requests have no valid case yields NaN - not a number, not a crash
      (the requests a metric makes are recorded by a transparent proxy around the Data object).
"""
import math
import os
import time

import numpy as np

from mc import core, explore, gen
from mc import harness as H
from mc.ref import dataset as RD
from checks import common_data as CD

PID = "C04"
LEVEL = "exploration"
TECHNIQUE = "bounded exhaustive enumeration (E1): every (input, field, cell, encoding) single deviation and all pairs of cells, all metrics x axes, against the reference dataset model and a metamorphic canonical-form oracle"
ASSUMPTIONS = ["-inf is not a documented missing-value encoding: it is only exercised for obs and fcst, where a non-finite value is dropped", "finite tokens above 1e30 (e.g. 1e31) in TEXT files are not judged; infinite ones (inf, 1e400) are",
               "metric formulas themselves are decided by C05/C06/C08; here only that missing cases are dropped"]

DAY = 86400
T0 = 1330387200
FIELDS = ["obs", "fcst", "pit", "p1", "p2", "q0.1", "q0.9", "e0", "e1", "e2", "crps"]
TEXT_TOKENS = ["-999", "-999.0", "nan", "NA", "na", ".", "<absent-row>", "inf", "1e400", "1e31", "-inf"]    # inf, 1e400, 1e31: values above 1e30
NC_ENCS = ["nan", "-999", "masked", "fill", "1e31", "inf", "-inf"]
P1, P2 = ("p", 1.0), ("p", 2.0)
Q1, Q9 = ("q", 0.1), ("q", 0.9)
ROLE_SETS = [["obs", "fcst"], ["fcst"], ["obs"], ["pit"], ["obs", P1], ["obs", P1, P2], ["obs", Q1], [Q1, Q9, "fcst", "obs"],
             [("e", 0)], [("e", 1), ("e", 2)], [("o", "crps")], ["obs", ("p", 1.5)], ["obs", ("q", 0.5)]]
AXES = ["leadtime", "location", "no"]


def dataset(seed):
    locs = gen.std_locs(2, seed)
    t = [T0, T0 + DAY]
    l = [0.0, 24.0]
    vals = gen.unique_values(seed, 300)
    inputs = []
    obs = {}
    n = 0
    for ti in range(2):
        for li in range(2):
            for si in range(2):
                obs[(ti, li, si)] = [1.5, 0.5, 2.5, 1.0, 3.0, 2.0, 0.25, 1.75][n]
                n += 1
    for k, name in enumerate(("A", "B")):
        ai = gen.AInput(name, t, l, locs, variable="T", units="K")
        for fi, f in enumerate(FIELDS):
            d = {}
            for n, pos in enumerate(ai.positions()):
                j = (n * (3, 5, 7)[fi % 3] + fi + k) % 8
                if f == "obs":
                    d[pos] = obs[pos]
                elif f in ("p1", "p2", "pit"):
                    base = [0.0, 0.125, 0.25, 0.375, 0.5, 0.625, 0.875, 1.0][j]
                    d[pos] = min(1.0, base + (0.125 if f == "p2" else 0.0)) if f != "pit" else base
                elif f in ("q0.1", "q0.9"):
                    d[pos] = 0.25 * j + (0.0 if f == "q0.1" else 2.0) + k * 0.125
                elif f[0] == "e":
                    d[pos] = 0.5 * j + int(f[1]) * 0.75 + k * 0.25
                else:
                    d[pos] = vals[(fi * 16 + n + k * 8) % len(vals)]
            ai.fields[f] = d
        inputs.append(ai)
    return inputs


_METRICS = None


def metric_menu():
    """(name, instance, interval) for every valid metric"""
    global _METRICS
    if _METRICS is None:
        import verif.metric
        import verif.interval
        out = []
        for name, cls in sorted(verif.metric.get_all(), key=lambda x: x[0]):
            if not cls.is_valid():
                continue
            m = verif.metric.get(name.lower())
            if m is None:
                continue
            rt = m.require_threshold_type
            if rt == "quantile":
                iv = verif.interval.Interval(0.1, 0.9, False, False)
            elif rt == "threshold":
                iv = verif.interval.Interval(1.0, np.inf, False, False)
                if name.lower() == "within":
                    iv = verif.interval.Interval(-np.inf, 1.0, False, False)
            else:
                iv = verif.interval.Interval(1.25, np.inf, False, False)
            out.append((name.lower(), m, iv))
        # the same scores under another -agg statistic: a slice without a valid case has no total, no maximum and no count of its own
        import verif.aggregator
        for name in ("obs", "fcst", "mae", "pit"):
            for aggname in ("sum", "max"):
                m = verif.metric.get(name)
                if m is not None and m.supports_aggregator:
                    m.aggregator = verif.aggregator.get(aggname)
                    out.append(("%s@%s" % (name, aggname), m, verif.interval.Interval(1.25, np.inf, False, False)))
        _METRICS = out
    return _METRICS


class Spy(object):
    """transparent proxy around a Data object that records the requests a metric makes"""

    def __init__(self, data):
        self._d = data
        self.requests = []

    def get_scores(self, fields, input_index, axis=None, axis_index=None):
        import verif.axis
        if axis is None:
            axis = verif.axis.All()
        self.requests.append((fields if isinstance(fields, list) else [fields], input_index, axis, axis_index))
        return self._d.get_scores(fields, input_index, axis, axis_index)

    def __getattr__(self, name):
        return getattr(self._d, name)


def field_role(f):
    import verif.field
    if isinstance(f, verif.field.Obs):
        return "obs"
    if isinstance(f, verif.field.Fcst):
        return "fcst"
    if isinstance(f, verif.field.Pit):
        return "pit"
    if isinstance(f, verif.field.Threshold):
        return ("p", float(f.threshold))
    if isinstance(f, verif.field.Quantile):
        return ("q", float(f.quantile))
    if isinstance(f, verif.field.Ensemble):
        return ("e", int(f.member))
    if isinstance(f, verif.field.Other):
        return ("o", f.name())
    return None




def role_of_field_name(f):
    if f in ("obs", "fcst", "pit"):
        return f
    if f[0] in "pq" and f[1:].replace(".", "", 1).isdigit():
        return (f[0], float(f[1:]))
    return None


def all_scores(ctx, data, ref, tag):
    """every metric x axis x input; returns {(metric, axis, input): tuple of floats | 'exit' | 'crash:site'}"""
    import verif.axis
    out = {}
    uses = {}         # metric name -> set of roles it requested in THIS call (from the proxy)
    all_scores.last_uses = uses
    for name, m, iv in metric_menu():
        for ax in AXES:
            axis = verif.axis.get(ax)
            for i in range(ref.n):
                spy = Spy(data)
                kind, res, site, _ = H.quiet_call(m.compute, spy, i, axis, iv)
                if kind == "crash":
                    ctx.fail("%s:metric-crash:%s:%s" % (tag, name, site), axis=ax, input=i)
                    out[(name, ax, i)] = "crash"
                    continue
                if kind == "exit":
                    out[(name, ax, i)] = "exit"
                    continue
                vals = []
                for v in np.asarray(res).reshape(-1):
                    vals.append(float(v))
                out[(name, ax, i)] = tuple(vals)
                for fields, ii_, a_, ak_ in spy.requests:
                    uses.setdefault(name, set()).update(r for r in (field_role(f) for f in fields) if r is not None)
                # oracle (iii): slices in which one of the metric's own requests has no valid case
                if ref is not None:
                    for k in range(len(vals)):
                        empty = False
                        for fields, ii, a, ak in spy.requests:
                            if ak != k and not (ak is None):
                                continue
                            roles = [field_role(f) for f in fields]
                            if any(r is None for r in roles):
                                continue
                            try:
                                rows = ref.request(roles, ii, ax, k)
                            except (RD.RefError, KeyError):
                                continue
                            if not rows:
                                empty = True
                        if empty:
                            ctx.flag("empty-slice")
                            if not math.isnan(vals[k]):
                                ctx.fail("%s:empty-slice-gives-number:%s" % (tag, name), axis=ax, index=k, input=i, value=vals[k])
    return out


def same(a, b):
    if isinstance(a, str) or isinstance(b, str):
        return a == b
    if len(a) != len(b):
        return False
    for x, y in zip(a, b):
        if math.isnan(x) and math.isnan(y):
            continue
        if x == y:
            continue
        if abs(x - y) <= 1e-9 * max(1.0, abs(x), abs(y)):
            continue
        return False
    return True


def build_from_files(inputs, via, marks, encs):
    """write inputs with the marked cells encoded; returns verif Input objects"""
    import verif.input
    d = os.path.join(H.scratch(), "c04" + via)
    os.makedirs(d, exist_ok=True)
    objs = []
    for k, ai in enumerate(inputs):
        my = {(f, pos): e for (ii, f, pos), e in zip(marks, encs) if ii == k}
        if via == "text":
            p = os.path.join(d, ai.name + ".txt")
            absent = [pos for (f, pos), e in my.items() if e == "<absent-row>"]
            order = [pos for pos in ai.positions() if pos not in absent]
            toks = {key: e for key, e in my.items() if e != "<absent-row>"}
            gen.text_file(ai, p, row_order=order, missing_tokens=toks)
            objs.append(verif.input.Text(p))
        else:
            p = os.path.join(d, ai.name + ".nc")
            gen.netcdf_file(ai, p, missing_encs=my)
            objs.append(verif.input.Netcdf(p))
    return objs


_CANON = {}


def h_single(ctx):
    """one or two marked cells, each in one encoding, through files"""
    seed = core.seed()
    via = ctx.params["via"]
    encs_menu = TEXT_TOKENS if via == "text" else NC_ENCS
    inputs = dataset(seed)
    cells = [(ii, f, pos) for ii in range(2) for f in ctx.params["fields"] for pos in inputs[0].positions()]
    marks, encs = [], []
    n_marks = ctx.params["marks"]
    prev = -1
    for m in range(n_marks):
        opts = [c for c in range(prev + 1, len(cells))]
        if not opts:
            break
        ci = ctx.choose("cell%d" % m, opts, free=True)
        prev = ci
        first = ctx.params.get("encs_first", encs_menu)
        e = ctx.choose("enc%d" % m, first if m == 0 else (encs_menu if ctx.params.get("enc_all") else encs_menu[:1]), free=True)
        if e in ("-inf",) and cells[ci][1] not in ("obs", "fcst"):
            e = encs_menu[0]        # minus infinity is only judged for obs / fcst (non-finite = missing there); see ASSUMPTIONS
        marks.append(cells[ci])
        encs.append(e)
    # -T 48 (mean over the trailing 48 h of lead times) for marks in the fields that are pre-aggregated: a value missing at the
    # first lead time is missing in every window that contains it, also for probabilities derived from the members
    agg = None
    if ctx.params.get("agg") and all(m[1] in ("obs", "fcst", "e0", "e1", "e2") for m in marks) and all(e == encs_menu[0] for e in encs):
        agg = ctx.choose("-T", (None, 48), free=True)
    # ... whatever the statistic: a total over a window with a missing value is missing too, not the total of the rest
    aggm = ctx.choose("-Tagg", ("mean", "sum"), free=True) if agg else "mean"
    kwr = {"agg_len": agg, "agg_axis": "leadtime", "agg_method": aggm} if agg else {}
    marked = [a.copy() for a in inputs]
    canonical = [a.copy() for a in inputs]
    file_inputs = [a.copy() for a in inputs]
    for (ii, f, pos), e in zip(marks, encs):
        if e == "<absent-row>":
            # a row that is not in the file: every field of that input is missing there
            for g in FIELDS:
                marked[ii].fields[g].pop(pos, None)
                file_inputs[ii].fields[g].pop(pos, None)
                for c in canonical:
                    c.fields[g].pop(pos, None)
        else:
            marked[ii].fields[f].pop(pos, None)
            file_inputs[ii].fields[f].pop(pos, None)
            for c in canonical:
                c.fields[f].pop(pos, None)
    ctx.note("marks", [(ii, f, list(pos), e) for (ii, f, pos), e in zip(marks, encs)])
    ref = RD.RefData(marked, **kwr)
    import verif.data
    import verif.axis
    import verif.aggregator
    kwd = {"dim_agg_length": agg, "dim_agg_axis": verif.axis.Leadtime(), "dim_agg_method": verif.aggregator.get(aggm)} if agg else {}
    if agg:
        ctx.flag("agg")
        agg = (agg, aggm)          # key of the cached canonical / deleted datasets
    kind, objs, site, out = H.quiet_call(build_from_files, file_inputs, via, marks, encs)
    if kind != "ok":
        ctx.fail("read-%s:%s" % (kind, site), stdout=out[-200:])
        return
    kind, data, site, out = H.quiet_call(verif.data.Data, objs, **kwd)
    if kind != "ok":
        ctx.fail("data-%s:%s" % (kind, site), stdout=out[-200:])
        return
    # (i) requests against the reference
    sig = CD.check_requests(ctx, data, ref, ROLE_SETS, AXES + ["all"], via)
    # (ii) metamorphic: all metrics on the file-based dataset == on the canonical in-memory dataset
    got = all_scores(ctx, data, ref, via)
    uses_now = all_scores.last_uses
    ckey = (seed, agg, tuple(sorted((f, pos) if e != "<absent-row>" else ("*", pos) for (ii, f, pos), e in zip(marks, encs))))
    if ckey not in _CANON:
        kindc, datac, sitec, _ = CD.make_data(canonical, **kwd)
        if kindc != "ok":
            raise core.E1.HarnessError("canonical dataset rejected: %r" % (sitec,))
        refc = RD.RefData(canonical, **kwr)
        if len(_CANON) > 5000:
            _CANON.clear()
        _CANON[ckey] = all_scores(ctx, datac, refc, "canonical")
    exp = _CANON[ckey]
    nonfin = 0
    if agg and any(m[1].startswith("e") for m in marks):
        # a member missing in one file does not make the other file's members missing: with -T (probabilities from the members) the
        # canonical form is not equivalent; oracle (i) judges these cases
        exp = {}
    for key in exp:
        if not same(exp[key], got[key]):
            ctx.fail("%s:metamorphic:%s:%s" % (via, key[0], "+".join(sorted(set(m[1] for m in marks)))), metric=key[0], axis=key[1], input=key[2],
                     canonical=exp[key], got=got[key], encodings=encs)
    # (iv) "the score of the same data with those cases deleted": for a metric that requests every marked field, the marked
    # cases are deleted altogether (every field, every input) - whatever the order or grouping of its requests
    mroles = [role_of_field_name(f) for (ii, f, pos) in marks]
    if all(r is not None for r in mroles):
        dkey = ("deleted", seed, agg, tuple(sorted(set(pos for (ii, f, pos) in marks))))
        if dkey not in _CANON:
            deleted = [a.copy() for a in inputs]
            for (ii, f, pos) in marks:
                for dd in deleted:
                    for g in FIELDS:
                        dd.fields[g].pop(pos, None)
            kindd, datad, sited, _ = CD.make_data(deleted, **kwd)
            if kindd != "ok":
                raise core.E1.HarnessError("dataset with the cases deleted was rejected: %r" % (sited,))
            _CANON[dkey] = all_scores(ctx, datad, RD.RefData(deleted, **kwr), "deleted")
        expd = _CANON[dkey]
        for key in expd:
            if all(r in uses_now.get(key[0], set()) for r in mroles):
                ctx.flag("cases-deleted")
                if not same(expd[key], got[key]):
                    ctx.fail("%s:differs-from-the-score-with-the-cases-deleted:%s" % (via, key[0]), metric=key[0], axis=key[1], input=key[2],
                             cases_deleted=expd[key], got=got[key], marked=[(ii, f, list(pos)) for (ii, f, pos) in marks])
    # non-trivial: counting the placeholder as a number would have changed a result -> approximated by: the marked case
    # was valid in the unmarked dataset for some request
    ref0 = RD.RefData(inputs)
    changed = any(len(ref0.request(r, 0, "no", 0)) != len(ref.request(r, 0, "no", 0)) for r in ROLE_SETS)
    ctx.observe((tuple((m[0], m[1], m[2]) for m in marks), tuple(encs), sig))
    ctx.outcome("marks=%d" % len(marks))
    ctx.nontrivial(changed)


def h_struct(ctx):
    """whole slice / whole field / whole input missing"""
    seed = core.seed()
    via = ctx.params["via"]
    inputs = dataset(seed)
    what = ctx.choose("what", ("slice-lead", "slice-loc", "slice-time", "field", "input"), free=True)
    ii = ctx.choose("input", (0, 1), free=True)
    fsel = ctx.choose("field", FIELDS, free=True) if what != "input" else None
    enc = ctx.choose("enc", (TEXT_TOKENS[:3] if via == "text" else [e for e in NC_ENCS if e != "-inf"]), free=True)
    marks = []
    for pos in inputs[0].positions():
        hit = {"slice-lead": pos[1] == 1, "slice-loc": pos[2] == 0, "slice-time": pos[0] == 1, "field": True, "input": True}[what]
        if hit:
            for f in ([fsel] if fsel else FIELDS):
                marks.append((ii, f, pos))
    marked = [a.copy() for a in inputs]
    for (k, f, pos) in marks:
        marked[k].fields[f].pop(pos, None)
    ctx.note("what", [what, ii, fsel, enc])
    ref = RD.RefData(marked)
    import verif.data
    kind, objs, site, out = H.quiet_call(build_from_files, marked, via, marks, [enc] * len(marks))
    if kind != "ok":
        ctx.fail("read-%s:%s" % (kind, site), stdout=out[-200:])
        return
    kind, data, site, out = H.quiet_call(verif.data.Data, objs)
    if kind != "ok":
        ctx.fail("data-%s:%s" % (kind, site), stdout=out[-200:])
        return
    sig = CD.check_requests(ctx, data, ref, ROLE_SETS, AXES + ["all"], via + "-struct")
    got = all_scores(ctx, data, ref, via + "-struct")
    kindc, datac, sitec, _ = CD.make_data(marked)
    exp = all_scores(ctx, datac, ref, "canonical")
    for key in exp:
        if not same(exp[key], got[key]):
            ctx.fail("%s-struct:metamorphic:%s" % (via, key[0]), metric=key[0], axis=key[1], input=key[2], canonical=exp[key], got=got[key])
    ctx.observe((what, ii, fsel, enc, sig))
    ctx.outcome(what)
    ctx.nontrivial()

# ---- array level: every metric that takes obs/fcst arrays ------------------------------------------------------------------
_ARRAY_METRICS = None


def array_metrics():
    global _ARRAY_METRICS
    if _ARRAY_METRICS is None:
        import verif.metric
        out = []
        for name, cls in verif.metric.get_all():
            if cls in (verif.metric.ObsFcstBased, verif.metric.Contingency):
                continue
            if issubclass(cls, verif.metric.ObsFcstBased):
                out.append((name, cls(), False))
            elif issubclass(cls, verif.metric.Contingency):
                out.append((name, cls(), True))
        _ARRAY_METRICS = out
    return _ARRAY_METRICS


def h_arrays(ctx):
    """compute_from_obs_fcst on arrays with NaN at arbitrary (different) positions of obs and fcst: the score equals the score
    of the same arrays with every pair that has a NaN deleted (no reference formula needed)"""
    import verif.interval
    n = ctx.choose("length", ctx.params["lengths"], free=True)
    alpha = [0.5, 2.0, 3.0] if (n <= 2 or ctx.params.get("full_alphabet")) else [0.5, 3.0]
    o = [ctx.choose("obs%d" % i, alpha, free=True) for i in range(n)]
    f = [ctx.choose("fcst%d" % i, alpha, free=True) for i in range(n)]
    slots = [("obs", i) for i in range(n)] + [("fcst", i) for i in range(n)]
    masks = [()] + [(a,) for a in slots] + [(a, b) for x, a in enumerate(slots) for b in slots[x + 1:]]
    mask = ctx.choose("nan", masks, free=True)
    on, fn = list(o), list(f)
    for which, i in mask:
        (on if which == "obs" else fn)[i] = float("nan")
    keep = [i for i in range(n) if not (math.isnan(on[i]) or math.isnan(fn[i]))]
    if not keep:
        ctx.outcome("no-valid-pair")
        return
    od, fd = [o[i] for i in keep], [f[i] for i in keep]
    iv = verif.interval.Interval(1.5, np.inf, False, False)
    sig = []
    for name, m, needs_iv in array_metrics():
        args1 = (np.array(on, dtype=float), np.array(fn, dtype=float)) + ((iv,) if needs_iv else ())
        args2 = (np.array(od, dtype=float), np.array(fd, dtype=float)) + ((iv,) if needs_iv else ())
        k1, r1, s1, _ = H.quiet_call(m.compute_from_obs_fcst, *args1)
        k2, r2, s2, _ = H.quiet_call(m.compute_from_obs_fcst, *args2)
        if k2 != "ok":
            continue                         # the NaN-free call is judged by C05 / C06 / C19
        if k1 != "ok":
            ctx.fail("arrays:%s:%s:%s" % (name, k1, s1), obs=on, fcst=fn)
            continue
        a = float(r1) if r1 is not np.ma.masked else float("nan")
        b = float(r2) if r2 is not np.ma.masked else float("nan")
        same = (math.isnan(a) and math.isnan(b)) or a == b or abs(a - b) <= 1e-12 * max(1.0, abs(b))
        if not same:
            ctx.fail("arrays:%s:differs-from-the-score-with-the-missing-pairs-deleted" % name.lower(), obs=on, fcst=fn, with_nan=a, deleted=b)
        sig.append(None if math.isnan(b) else round(b, 9))
        ctx.count()
    # the event indicator the spatial / marginal diagrams average (util.apply_threshold on arrays that still contain the missing
    # values): a missing value is neither an event nor a non-event, so the event frequency equals that of the array without it
    import verif.util
    for btype, args in (("above", (1.5,)), ("below=", (2.0,)), ("above=", (2.0,)), ("below", (2.5,)), ("within", (1.0, 2.5)), ("=within=", (0.5, 2.0))):
        for label, full, dense in (("obs", on, [x for x in on if not math.isnan(x)]), ("fcst", fn, [x for x in fn if not math.isnan(x)])):
            k1, r1, s1, _ = H.quiet_call(verif.util.apply_threshold, np.array(full, dtype=float), btype, *args)
            k2, r2, s2, _ = H.quiet_call(verif.util.apply_threshold, np.array(dense, dtype=float), btype, *args)
            if k1 != "ok" or k2 != "ok":
                ctx.fail("arrays:apply_threshold:%s:%s" % (k1 if k1 != "ok" else k2, s1 or s2), bin=btype)
                continue
            r1 = np.ma.filled(np.ma.asarray(r1, dtype=float), np.nan) if isinstance(r1, np.ma.MaskedArray) else np.asarray(r1, dtype=float)
            r2 = np.asarray(r2, dtype=float)
            nan_kept = all(math.isnan(float(r1[i])) for i in range(n) if math.isnan(full[i]))
            ctx.require(nan_kept, "arrays:event-indicator-of-a-missing-value-is-a-number", bin=btype, values=full, indicator=r1.tolist())
            if dense:
                a, b = float(np.nanmean(r1)) if np.isfinite(r1).any() else float("nan"), float(np.mean(r2))
                ctx.require(a == b, "arrays:event-frequency-differs-from-that-of-the-valid-values", bin=btype, values=full, with_nan=a, deleted=b)
            ctx.count()
    if len(mask) == 2 and mask[0][0] != mask[1][0] and mask[0][1] != mask[1][1]:
        ctx.flag("nan-at-different-positions")
    ctx.observe((tuple(on), tuple(fn)))
    ctx.outcome("nan=%d" % len(mask))
    ctx.nontrivial(len(mask) > 0)

def h_climdiv(ctx):
    """-C: a climatological value of exactly 0 makes obs/clim and fcst/clim non-finite at that case - it is dropped, for every input,
    exactly as if the climatology were missing there"""
    import verif.data
    seed = core.seed()
    inputs = dataset(seed)
    K = gen.AInput("K", inputs[0].times, inputs[0].leads, inputs[0].locs)
    K.fields["fcst"] = {pos: 0.5 + 0.25 * ((n_ * 3) % 7) for n_, pos in enumerate(K.positions())}
    zeros = []
    for pos in K.positions():
        if ctx.choose_bool("clim-zero:%r" % (pos,)):
            K.fields["fcst"][pos] = 0.0
            zeros.append(pos)
    Kdel = K.copy()
    for pos in zeros:
        del Kdel.fields["fcst"][pos]
    ref = RD.RefData(inputs, clim=K, clim_type="divide")
    kind, data, site, out = CD.make_data(inputs, aclim=K, clim_type="divide")
    kindd, datad, sited, _ = CD.make_data(inputs, aclim=Kdel, clim_type="divide")
    if kind != "ok" or kindd != "ok":
        ctx.fail("climdiv:data-%s:%s" % (kind if kind != "ok" else kindd, site or sited), stdout=out[-200:])
        return
    sig = CD.check_requests(ctx, data, ref, [["obs", "fcst"], ["fcst"], ["obs"]], AXES + ["all"], "climdiv")
    got = all_scores(ctx, data, ref, "climdiv")
    exp = all_scores(ctx, datad, RD.RefData(inputs, clim=Kdel, clim_type="divide"), "climdiv-deleted")
    for key in exp:
        if not same(exp[key], got[key]):
            ctx.fail("climdiv:differs-from-the-score-with-the-cases-deleted:%s" % key[0], metric=key[0], axis=key[1], input=key[2], cases_deleted=exp[key], got=got[key],
                     zero_climatology_at=[list(p) for p in zeros])
    if zeros:
        ctx.flag("zero-climatology")
    ctx.observe((tuple(zeros), sig))
    ctx.outcome("zeros=%d" % len(zeros))
    ctx.nontrivial(len(zeros) > 0)

def h_ncint(ctx):
    """NetCDF variables of an integer type (packed observations): -999 written as a number, and masked cells, are missing"""
    import verif.input
    import verif.data
    seed = core.seed()
    dtype = ctx.choose("dtype", ("i4", "i2"), free=True)
    locs = gen.std_locs(2, seed)
    inputs = []
    for k, name in enumerate(("A", "B")):
        ai = gen.AInput(name, [T0, T0 + DAY], [0.0, 24.0], locs, variable="T", units="K")
        ai.fields["obs"] = {pos: float((n_ * 3 + 2) % 11) for n_, pos in enumerate(ai.positions())}
        ai.fields["fcst"] = {pos: float((n_ * 5 + k * 4 + 1) % 13) for n_, pos in enumerate(ai.positions())}
        inputs.append(ai)
    marks = {}
    P = inputs[0].positions()
    for (ii, f, pos) in [(0, "obs", p_) for p_ in P[:4]] + [(0, "fcst", p_) for p_ in P[4:]] + [(1, "fcst", P[1]), (1, "obs", P[6])]:
        e = ctx.choose("miss:%d:%s:%r" % (ii, f, pos), (None, "-999", "masked"))
        if e is not None:
            marks[(ii, f, pos)] = e
    marked = [a.copy() for a in inputs]
    for (ii, f, pos) in marks:
        del marked[ii].fields[f][pos]
    d = os.path.join(H.scratch(), "c04int")
    os.makedirs(d, exist_ok=True)
    objs = []
    for k, ai in enumerate(marked):
        p = os.path.join(d, "%s-%d.nc" % (ai.name, os.getpid()))
        gen.netcdf_file(ai, p, missing_encs={(f, pos): e for (ii, f, pos), e in marks.items() if ii == k}, dtype=dtype)
        objs.append(verif.input.Netcdf(p))
    kind, data, site, out = H.quiet_call(verif.data.Data, objs)
    if kind != "ok":
        ctx.fail("ncint:data-%s:%s" % (kind, site), stdout=out[-200:])
        return
    ref = RD.RefData(marked)
    sig = CD.check_requests(ctx, data, ref, [["obs", "fcst"], ["fcst"], ["obs"]], AXES + ["all"], "ncint")
    if any(e == "-999" for e in marks.values()):
        ctx.flag("literal--999")
    ctx.observe((dtype, tuple(sorted(marks.items())), sig))
    ctx.outcome("marks=%d" % len(marks))
    ctx.nontrivial(len(marks) > 0)


def plan(tier):
    q = tier == "quick"
    small = ["obs", "fcst", "p1", "e0"]
    p = [("text-1", h_single, {"via": "text", "marks": 1, "fields": FIELDS, "agg": True}),
         ("nc-1", h_single, {"via": "nc", "marks": 1, "fields": FIELDS}),
         ("text-2", h_single, dict({"via": "text", "marks": 2, "fields": ["obs", "fcst"] if q else ["obs", "fcst", "pit", "p1", "e0"], "enc_all": False},
                                   **({"encs_first": ["-999", "NA", "inf", "<absent-row>"]} if q else {}))),
         ("nc-2", h_single, dict({"via": "nc", "marks": 2, "fields": ["fcst", "e0"] if q else ["obs", "fcst", "p1", "q0.1", "e0"]},
                                 **({"encs_first": ["nan", "masked", "fill", "-inf"]} if q else {}))),
         ("text-struct", h_struct, {"via": "text"}), ("nc-struct", h_struct, {"via": "nc"}),
         ("arrays", h_arrays, {"lengths": [2, 3] if q else [2, 3, 4], "full_alphabet": not q}),
         ("clim-divide", h_climdiv, {}), ("nc-int", h_ncint, {})]
    return p


def run(tier, only=None):
    subs = []
    for name, h, params in plan(tier):
        if only and only != name:
            continue
        t0 = time.time()
        if name not in ("nc-int", "clim-divide"):
            st = explore.explore(h, mode="full", params=params, repo_root=core.REPO, time_cap=(240 if tier == "quick" else 3000))
        if name == "nc-int":
            st = explore.explore(h, mode="dev", k=(1 if tier == "quick" else 2), params=params, repo_root=core.REPO, time_cap=(240 if tier == "quick" else 3000))
            subs.append(core.Sub.from_e1(name, st, bound="integer NetCDF variables (i4, i2) x dev(%d) over 10 (input, obs|fcst, cell) x {-999 as a number, masked}" % (1 if tier == "quick" else 2),
                                         rule="one execution = two inputs stored in an integer type with the marked cells encoded; every request compared with the reference",
                                         required_flags=("literal--999",), wall=time.time() - t0))
            continue
        if name == "clim-divide":
            st = explore.explore(h, mode="dev", k=(1 if tier == "quick" else 2), params=params, repo_root=core.REPO, time_cap=(240 if tier == "quick" else 3000))
            subs.append(core.Sub.from_e1(name, st, bound="dev(%d) over the 8 cases at which the climatology is exactly 0, -C" % (1 if tier == "quick" else 2),
                                         rule="one execution = the 2-input dataset divided by a climatology with zeros; requests vs the reference and all metrics vs the dataset "
                                              "whose climatology is missing at those cases; non-trivial = at least one zero",
                                         required_flags=("zero-climatology",), wall=time.time() - t0))
            continue
        if name == "arrays":
            subs.append(core.Sub.from_e1(name, st, bound="all obs/fcst vector pairs of length %r over {0.5, 2, 3} (quick: {0.5, 3} beyond length 2) x every placement of at most two NaN" % (params["lengths"],),
                                         rule="one execution = one vector pair with NaN; 47 array-level metrics (22 deterministic, 25 contingency at threshold 1.5) must equal "
                                              "their score on the pairs without NaN; non-trivial = at least one NaN",
                                         required_flags=("nan-at-different-positions",), wall=time.time() - t0))
            continue
        subs.append(core.Sub.from_e1(name, st, bound="full over (input, field, cell) x encoding %r" % ({k: v for k, v in params.items() if k != "fields"},),
                                     rule="one execution = a dataset with the marked cell(s) written in the chosen encoding; 13 request sets x 4 axes vs the reference, "
                                          "and all metrics x 3 axes x 2 inputs vs the canonical in-memory dataset; non-trivial = the marked case was valid before marking",
                                     required_flags=("empty-slice",) if "struct" in name else ("cases-deleted", "agg") if name == "text-1" else ("cases-deleted",), wall=time.time() - t0))
    return subs


def replay(rec):
    for tier in (rec.get("tier", "quick"), "thorough", "quick"):
        for name, h, params in plan(tier):
            if name == rec["subcheck"]:
                ctx, _ = explore.replay(h, rec["choices"], None, params=params, repo_root=core.REPO)
                return [v.locus for v in ctx.violations if v.locus == rec["signature"][1]]
    return []
