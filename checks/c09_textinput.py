"""C09 - text input files are read faithfully.

E2 (rows):   the reader as a row-consuming machine.  Events: one data row per coordinate of a 2x2x2 grid in 2 value variants; a
             state is the file written so far; canonical state = every public attribute of the resulting verif.input.Text object.
             Well-formed histories use each coordinate once, so the reachable states are the 3^8 partial assignments; BFS to the
             fixpoint; invariant in every state: attributes == what the rows say, combinations not (yet) in the file are missing.
E2 (meta):   the same with comment / '# variable:' / '# units:' / '# x0:' / '# x1:' / bare '#' lines as events.
E1 (header): time columns {date, date+hour, unixtime, none} x lead {leadtime, offset, none} x station {location, id, none} x lat/lon
             x {altitude, elev, none} x every subset of the data columns (full 2^11 block) x column order x separator x missing
             token x header spelling of thresholds: dev(k).
E1 (rows):   all permutations of the rows of a 6-row (thorough 8-row) file without de-duplication (parser locals carried between rows).
"""
import itertools
import math
import os
import time

import numpy as np

from mc import core, explore, bfs, gen
from mc import harness as H
from mc.ref import calendar as cal

PID = "C09"
LEVEL = "model_checking"
TECHNIQUE = "explicit-state BFS (E2) of the text reader as a row-consuming machine to a fixpoint (canonical state = all public attributes of the parsed input) plus bounded exhaustive enumeration (E1) of header layouts and row orders, against the generating abstract dataset"
ASSUMPTIONS = ["blank lines, conflicting duplicate coordinates and inf tokens are not well-formed text input",
               "a header consisting only of e<member>/other-score columns may be rejected (the format requires obs, fcst, p* or q*)"]

DAY = 86400
T0 = cal.days_from_civil(2012, 2, 29) * DAY
DATA_COLS = ["obs", "fcst", "pit", "p1", "p8", "p-2.5", "q0.1", "q0.9", "e0", "e1", "crps"]


def nan_eq(a, b, tol=1e-12):
    if a is None or (isinstance(a, float) and math.isnan(a)):
        return b is None or (isinstance(b, float) and math.isnan(b))
    if b is None or (isinstance(b, float) and math.isnan(b)):
        return False
    return abs(a - b) <= tol * max(1.0, abs(a))


def compare(fail, inp, ai, has_id=True, has_latlon=True, has_elev=True, tag="read"):
    """verif.input.Text object against the abstract input that generated the file"""
    times = [float(t) for t in inp.times]
    leads = [float(l) for l in inp.leadtimes]
    ok = True
    if times != sorted(set(float(t) for t in ai.times)):
        fail("%s:times" % tag, expected=sorted(set(ai.times)), actual=times)
        ok = False
    if leads != sorted(set(float(l) for l in ai.leads)):
        fail("%s:leadtimes" % tag, expected=sorted(set(ai.leads)), actual=leads)
        ok = False
    locs = list(inp.locations)
    if len(locs) != len(ai.locs):
        fail("%s:location-count" % tag, expected=len(ai.locs), actual=len(locs))
        return False

    def key_of(loc):
        if has_id:
            return ("id", float(loc.id))
        if has_latlon:
            return ("ll", float(loc.lat), float(loc.lon))
        return ("one",)
    by_key = {}
    for si, loc in enumerate(locs):
        by_key[key_of(loc)] = si
    smap = {}
    for sj, (lid, lat, lon, elev) in enumerate(ai.locs):
        k = ("id", float(lid)) if has_id else (("ll", float(lat), float(lon)) if has_latlon else ("one",))
        if k not in by_key:
            fail("%s:location-missing" % tag, expected=[lid, lat, lon, elev], actual=[(l.id, l.lat, l.lon, l.elev) for l in locs])
            return False
        si = by_key[k]
        smap[sj] = si
        loc = locs[si]
        exp = (lat if has_latlon else 0.0, lon if has_latlon else 0.0, elev if has_elev else 0.0)
        got = (float(loc.lat), float(loc.lon), float(loc.elev))
        if any(abs(a - b) > 1e-9 for a, b in zip(exp, got)):
            fail("%s:location-metadata" % tag, id=lid, expected=exp, actual=got)
            ok = False
    if not ok:
        return False
    # fields
    thr = [float(x) for x in inp.thresholds]
    qs = [float(x) for x in inp.quantiles]
    exp_thr = sorted(float(n[1:]) for n in ai.fields if gen.kind(n) == "p")
    exp_q = sorted(float(n[1:]) for n in ai.fields if gen.kind(n) == "q")
    if sorted(thr) != exp_thr:
        fail("%s:thresholds" % tag, expected=exp_thr, actual=thr)
        ok = False
    if sorted(qs) != exp_q:
        fail("%s:quantiles" % tag, expected=exp_q, actual=qs)
        ok = False
    mem = ai.members()
    nm = inp.ensemble.shape[3] if inp.ensemble is not None else 0
    if nm != len(mem):
        fail("%s:member-count" % tag, expected=len(mem), actual=nm)
        ok = False
    if not ok:
        return False
    for name in ai.fields:
        kind = gen.kind(name)
        for ti, t in enumerate(sorted(set(ai.times))):
            for li, l in enumerate(sorted(set(ai.leads))):
                for sj in range(len(ai.locs)):
                    e = ai.get(name, (ai.times.index(t), ai.leads.index(l), sj))
                    si = smap[sj]
                    if kind == "obs":
                        arr = inp.obs
                        g = None if arr is None else arr[ti, li, si]
                    elif kind == "fcst":
                        arr = inp.fcst
                        g = None if arr is None else arr[ti, li, si]
                    elif kind == "pit":
                        arr = inp.pit
                        g = None if arr is None else arr[ti, li, si]
                    elif kind == "p":
                        g = inp.threshold_scores[ti, li, si, thr.index(float(name[1:]))]
                    elif kind == "q":
                        g = inp.quantile_scores[ti, li, si, qs.index(float(name[1:]))]
                    elif kind == "e":
                        g = inp.ensemble[ti, li, si, mem.index(int(float(name[1:])))]
                    else:
                        try:
                            g = inp.other_score(name)[ti, li, si]
                        except KeyError:
                            g = "absent"
                    if isinstance(g, str) or not nan_eq(e, None if g is None else float(g)):
                        fail("%s:value:%s" % (tag, kind), field=name, time=t, leadtime=l, location=ai.locs[sj][0], expected=e,
                             actual=None if g is None else (g if isinstance(g, str) else float(g)))
                        return False
    return True


# ------------------------------------------------------------------------------------------------------------------
class RowMachine(object):
    """events = data rows; state = file so far"""

    def __init__(self, seed, grid=(2, 2, 2), variants=2, meta_events=False):
        self.seed = seed
        locs = gen.std_locs(grid[2], seed)
        self.times = [T0 + 18 * 3600, T0 + DAY + 6 * 3600][:grid[0]]
        self.leads = [0.0, 6.0][:grid[1]]
        self.locs = locs
        self.header = ["unixtime", "leadtime", "location", "lat", "lon", "altitude", "obs", "fcst", "p1", "q0.5", "e0", "crps"]
        vals = gen.unique_values(seed, 400)
        self.rows = []
        k = 0
        for ti, t in enumerate(self.times):
            for li, l in enumerate(self.leads):
                for si, s in enumerate(self.locs):
                    for v in range(variants):
                        cells = {}
                        for fi, f in enumerate(self.header[6:]):
                            cells[f] = vals[(k * 7 + fi * 3 + v * 101) % len(vals)]
                            if v == 1 and fi == 1:
                                cells[f] = None          # variant 1 has a missing forecast
                        self.rows.append(("row", ti, li, si, v, cells))
                        k += 1
        self.meta = []
        if meta_events:
            self.meta = [("meta", "# variable: relative air humidity"), ("meta", "# units: in % units"), ("meta", "# x0: 0"), ("meta", "# x1: 10.5"),
                         ("meta", "# just a comment"), ("meta", "#")]
        self.dir = None

    def _line(self, ev):
        if ev[0] == "meta":
            return ev[1]
        _, ti, li, si, v, cells = ev
        s = self.locs[si]
        parts = [gen.fmt_num(self.times[ti]), gen.fmt_num(self.leads[li]), gen.fmt_num(s[0]), gen.fmt_num(s[1]), gen.fmt_num(s[2]), gen.fmt_num(s[3])]
        parts += ["-999" if cells[f] is None else gen.fmt_num(cells[f]) for f in self.header[6:]]
        return " ".join(parts)

    def events(self, hist):
        used = set((e[1], e[2], e[3]) for e in hist if e[0] == "row")
        usedm = set(e[1] for e in hist if e[0] == "meta")
        out = [e for e in self.rows if (e[1], e[2], e[3]) not in used]
        out += [e for e in self.meta if e[1] not in usedm]
        return out

    def build(self, hist):
        obj = {"hist": list(hist), "inp": None}
        return obj

    def _parse(self, hist):
        import verif.input
        d = os.path.join(H.scratch(), "c09rows")
        os.makedirs(d, exist_ok=True)
        p = os.path.join(d, "f%d.txt" % os.getpid())
        meta_first = [self._line(e) for e in hist if e[0] == "meta"]
        # metadata lines are interleaved where they occurred; the header comes before the first data row
        lines = []
        header_done = False
        for e in hist:
            if e[0] == "row" and not header_done:
                lines.append(" ".join(self.header))
                header_done = True
            lines.append(self._line(e))
        if not header_done:
            lines.append(" ".join(self.header))
        with open(p, "w") as f:
            f.write("\n".join(lines) + "\n")
        return H.quiet_call(verif.input.Text, p)

    def apply(self, obj, ev):
        obj["hist"].append(ev)
        kind, inp, site, out = self._parse(obj["hist"])
        obj["inp"] = inp if kind == "ok" else None
        if kind == "crash":
            raise inp
        return (kind, inp)

    def expected(self, hist):
        rows = [e for e in hist if e[0] == "row"]
        tset = sorted(set(self.times[e[1]] for e in rows))
        lset = sorted(set(self.leads[e[2]] for e in rows))
        sset = []
        for e in rows:
            if e[3] not in sset:
                sset.append(e[3])
        ai = gen.AInput("x", tset, lset, [self.locs[s] for s in sset])
        for f in self.header[6:]:
            ai.fields[f] = {}
        for e in rows:
            pos = (tset.index(self.times[e[1]]), lset.index(self.leads[e[2]]), sset.index(e[3]))
            for f, v in e[5].items():
                if v is not None:
                    ai.fields[f][pos] = v
        return ai

    def observe(self, observation):
        kind, inp = observation
        if kind != "ok":
            return (kind,)
        return self._attrs(inp)

    def _attrs(self, inp):
        def arr(a):
            if a is None:
                return None
            a = np.asarray(a, dtype=float)
            return (a.shape, np.where(np.isnan(a), np.float64("nan"), a).tobytes())
        locs = sorted((float(l.id), float(l.lat), float(l.lon), float(l.elev)) for l in inp.locations)
        order = [sorted(range(len(inp.locations)), key=lambda i: float(inp.locations[i].id))]
        # arrays are compared after sorting the location dimension by id (the reader's location order is unspecified)
        idx = order[0]

        def sarr(a):
            if a is None:
                return None
            a = np.asarray(a, dtype=float)
            a = np.take(a, idx, axis=2) if a.ndim >= 3 and a.shape[2] == len(idx) else a
            return (a.shape, np.where(np.isnan(a), np.float64("nan"), a).tobytes())
        thr = [float(x) for x in inp.thresholds]
        return (tuple(float(t) for t in inp.times), tuple(float(t) for t in inp.leadtimes), tuple(locs), sarr(inp.obs), sarr(inp.fcst), sarr(inp.pit),
                tuple(sorted(thr)), sarr(inp.threshold_scores), sarr(inp.quantile_scores), sarr(inp.ensemble),
                tuple(sorted((k, sarr(inp.other_score(k))) for k in inp.other_fields)),
                inp.variable.name, inp.variable.units, inp.variable.x0, inp.variable.x1)

    def canon(self, obj):
        if obj["inp"] is None:
            return repr(("none", sorted(repr(e[:5]) for e in obj["hist"]))).encode()
        # the menu of enabled events depends on which coordinates / metadata lines were used: part of the state
        used = (sorted((e[1], e[2], e[3]) for e in obj["hist"] if e[0] == "row"), sorted(e[1] for e in obj["hist"] if e[0] == "meta"))
        return repr((used, self._attrs(obj["inp"]))).encode()

    def invariant(self, obj, hist):
        out = []
        if not hist:
            return out
        inp = obj["inp"]
        rows = [e for e in hist if e[0] == "row"]
        if inp is None:
            out.append(("rows:rejected-well-formed-file", {"lines": [self._line(e) for e in hist]}))
            return out
        if rows:
            ai = self.expected(hist)
            fails = []
            compare(lambda locus, **d: fails.append((locus, d)), inp, ai, tag="rows")
            for locus, d in fails:
                d["lines"] = [self._line(e) for e in hist]
                out.append((locus, d))
        # metadata
        metas = [e[1] for e in hist if e[0] == "meta"]
        # both values begin with letters that also occur in their keyword (a prefix is removed, not a set of characters)
        expv = "relative air humidity" if "# variable: relative air humidity" in metas else "Unknown variable"
        expu = "in % units" if "# units: in % units" in metas else "Unknown units"
        expx0 = 0.0 if "# x0: 0" in metas else None
        expx1 = 10.5 if "# x1: 10.5" in metas else None
        got = (inp.variable.name, inp.variable.units, inp.variable.x0, inp.variable.x1)
        if got != (expv, expu, expx0, expx1):
            out.append(("meta:variable-metadata", {"expected": [expv, expu, expx0, expx1], "actual": list(got), "lines": metas}))
        return out


# ------------------------------------------------------------------------------------------------------------------
def h_header(ctx):
    import verif.input
    seed = core.seed()
    tcol = ctx.choose("time-cols", ("unixtime", "datehour", "date", None))
    lcol = ctx.choose("lead-col", ("leadtime", "offset", None))
    scol = ctx.choose("station-col", ("location", "id", None))
    latlon = ctx.choose("latlon", (True, False))
    ecol = ctx.choose("elev-col", ("altitude", "elev", None))
    subset = ctx.choose("data-columns", ctx.params["subsets"], free=True)
    sep = ctx.choose("separator", (" ", "\t", "   "))
    token = ctx.choose("missing-token", ("-999", "nan", "NA", "-999.0", "."))
    spelling = ctx.choose("threshold-spelling", ("p1", "p1.0", "p01", "p1e0"))
    order = ctx.choose("column-order", ("natural", "reversed", "data-first", "interleaved", "rot1", "rot2"))
    row_order = ctx.choose("row-order", ("natural", "reversed", "shuffled"))
    # the dimensions follow from which coordinate columns exist
    if tcol == "date":
        times = [T0, T0 + DAY]
    elif tcol == "datehour":
        times = [T0 + 18 * 3600, T0 + DAY + 6 * 3600]           # hours carry across the day boundary
    elif tcol == "unixtime":
        times = [T0 + 18 * 3600 + 1800, T0 + DAY + 6 * 3600]
    else:
        times = [0]
    leads = [0.0, 6.0] if lcol else [0.0]
    nloc = 2 if (scol or latlon) else 1
    locs = gen.std_locs(nloc, seed)
    if not scol:
        locs = [(float("nan"), l[1], l[2], l[3]) for l in locs]
    ai = gen.AInput("hdr", times, leads, locs, variable="Precip", units="mm")
    vals = gen.unique_values(seed, 300)
    k = 0
    names = [DATA_COLS[i] for i in subset]
    for fi, f in enumerate(names):
        ai.fields[f] = {}
        for pos in ai.positions():
            ai.fields[f][pos] = vals[(k * 5 + fi * 23) % len(vals)]
            k += 1
    # one missing value per field
    for f in names:
        ai.fields[f].pop(ai.positions()[(len(f) * 3) % len(ai.positions())], None)
    coord = []
    if tcol == "unixtime":
        coord.append("unixtime")
    elif tcol == "date":
        coord.append("date")
    elif tcol == "datehour":
        coord += ["date", "hour"]
    if lcol:
        coord.append(lcol)
    if scol:
        coord.append(scol)
    if latlon:
        coord += ["lat", "lon"]
    if ecol:
        coord.append(ecol)
    hdrnames = list(names)
    cols = coord + hdrnames
    if order == "reversed":
        cols = cols[::-1]
    elif order == "data-first":
        cols = hdrnames + coord
    elif order == "interleaved":
        cols = [x for pair in itertools.zip_longest(hdrnames, coord) for x in pair if x is not None]
    elif order == "rot1":
        cols = cols[1:] + cols[:1]
    elif order == "rot2":
        cols = cols[len(cols) // 2:] + cols[:len(cols) // 2]
    pos = ai.positions()
    if row_order == "reversed":
        pos = pos[::-1]
    elif row_order == "shuffled":
        pos = [pos[(i * 5) % len(pos)] for i in range(len(pos))] if len(pos) % 5 else pos[1::2] + pos[0::2]
    d = os.path.join(H.scratch(), "c09hdr")
    os.makedirs(d, exist_ok=True)
    p = os.path.join(d, "h%d.txt" % os.getpid())
    # write with the natural names, then re-spell the p1 column in the header line if requested
    gen.text_file(ai, p, row_order=pos, columns=cols, time_cols=None, lead_col=None, loc_col=None, elev_col=None, with_latlon=False, sep=sep,
                  missing_token=token)
    if spelling != "p1" and "p1" in names:
        txt = open(p).read().split("\n")
        for i, line in enumerate(txt):
            if not line.startswith("#"):
                txt[i] = sep.join(spelling if w == "p1" else w for w in line.split())
                break
        open(p, "w").write("\n".join(txt))
    ctx.note("header", cols)
    ctx.note("file", open(p).read()[:600])
    kind, inp, site, out = H.quiet_call(verif.input.Text, p)
    needs = any(n in ("obs", "fcst") or n[0] in "pq" for n in names)
    if kind == "exit" and not needs:
        ctx.outcome("rejected-no-data-column")
        ctx.observe(("rejected", subset))
        return
    if kind != "ok":
        ctx.fail("header:%s:%s" % (kind, site or "rejected-well-formed-file"), header=cols, stdout=out[-200:])
        return
    if not scol:
        # ids are assigned by the reader
        ai.locs = [(None, l[1], l[2], l[3]) for l in ai.locs]
    if tcol == "date":
        pass
    okc = compare(ctx.fail, inp, ai, has_id=bool(scol), has_latlon=latlon, has_elev=bool(ecol), tag="header")
    ctx.require(inp.variable.name == "Precip" and inp.variable.units == "mm", "header:variable-metadata", actual=[inp.variable.name, inp.variable.units])
    ctx.observe((tcol, lcol, scol, latlon, ecol, subset, order))
    ctx.outcome("ok")
    if "crps" in names and any(n[0] in "pqe" and n not in ("pit",) for n in names):
        ctx.flag("other+numbered")
    ctx.nontrivial(len(names) > 1)

def h_sequence(ctx):
    """several files read one after the other in one process: every input object keeps describing its own file (no state shared
    between Text objects), whatever the order of reading"""
    import verif.input
    seed = core.seed()
    order = ctx.choose("order", list(itertools.permutations(range(3))), free=True)
    locs = gen.std_locs(2, seed)
    vals = gen.unique_values(seed, 300)
    specs = [("A", ["obs", "fcst", "pit", "p1", "q0.5", "e0", "crps", "spread"], 0), ("B", ["obs", "fcst", "pit", "p1", "q0.5", "e0", "crps", "spread"], 97),
             ("C", ["obs", "fcst"], 191)]
    ais = []
    for name, fields, salt in specs:
        ai = gen.AInput(name, [T0, T0 + DAY], [0.0, 6.0], locs, variable="Var" + name, units="u" + name)
        for fi, f in enumerate(fields):
            ai.fields[f] = {pos: vals[(salt + n_ * 7 + fi * 29) % len(vals)] for n_, pos in enumerate(ai.positions())}
        ais.append(ai)
    d = os.path.join(H.scratch(), "c09seq%d" % os.getpid())
    os.makedirs(d, exist_ok=True)
    objs = {}
    for k in order:
        p = gen.text_file(ais[k], os.path.join(d, ais[k].name + ".txt"))
        kind, inp, site, out = H.quiet_call(verif.input.Text, p)
        if kind != "ok":
            ctx.fail("sequence:%s:%s" % (kind, site or "rejected"), file=ais[k].name)
            return
        objs[k] = inp
    for k in range(3):
        compare(ctx.fail, objs[k], ais[k], tag="sequence:%s-read-%s" % (ais[k].name, ["first", "second", "third"][order.index(k)]))
        ctx.require(objs[k].variable.name == "Var" + ais[k].name and objs[k].variable.units == "u" + ais[k].name, "sequence:variable-metadata", file=ais[k].name,
                    actual=[objs[k].variable.name, objs[k].variable.units])
        extra = sorted(objs[k].other_fields)
        want = sorted(f for f in specs[k][1] if f in ("crps", "spread", "pit"))
        ctx.require(extra == want, "sequence:other-fields", file=ais[k].name, expected=want, actual=extra)
    ctx.observe(order)
    ctx.outcome("ok")
    ctx.nontrivial()


def h_rowperm(ctx):
    """all row orders of one file, no de-duplication (hidden parser locals carried from row to row)"""
    import verif.input
    seed = core.seed()
    n = ctx.params["rows"]
    locs = gen.std_locs(2, seed)
    # a file WITHOUT lat/lon/elev for one of the variants exercises the carried-over locals
    ai = gen.AInput("perm", [T0 + 3600, T0 + DAY], [0.0, 6.0], locs)
    vals = gen.unique_values(seed, 100)
    for fi, f in enumerate(["obs", "fcst", "q0.5"]):
        ai.fields[f] = {pos: vals[(k * 7 + fi * 13) % len(vals)] for k, pos in enumerate(ai.positions())}
    pos = ai.positions()[:n]
    for f in ai.fields:
        for q in ai.positions()[n:]:
            del ai.fields[f][q]
    perm = ctx.choose("order", ctx.params["perms"], free=True)
    latlon = ctx.choose("latlon", (True, False), free=True)
    d = os.path.join(H.scratch(), "c09perm")
    os.makedirs(d, exist_ok=True)
    p = os.path.join(d, "p%d.txt" % os.getpid())
    gen.text_file(ai, p, row_order=[pos[i] for i in perm], with_latlon=latlon, elev_col="elev" if latlon else None, time_cols="datehour")
    kind, inp, site, out = H.quiet_call(verif.input.Text, p)
    if kind != "ok":
        ctx.fail("rowperm:%s:%s" % (kind, site))
        return
    compare(ctx.fail, inp, ai, has_latlon=latlon, has_elev=latlon, tag="rowperm")
    ctx.observe(perm[:4])
    ctx.outcome("ok")
    ctx.nontrivial(list(perm) != sorted(perm))


def all_subsets():
    out = []
    for k in range(1, len(DATA_COLS) + 1):
        out += list(itertools.combinations(range(len(DATA_COLS)), k))
    return out


def run(tier, only=None):
    subs = []
    q = tier == "quick"
    if only in (None, "rows"):
        t0 = time.time()
        m = RowMachine(core.seed(), (2, 2, 2), 2)
        res = bfs.bfs(m, repo_root=core.REPO, time_cap=(600 if q else 1800), validate_merges=(300 if q else 5000))
        subs.append(core.Sub.from_e2("rows", res, bound="2x2x2 grid, 2 row variants per coordinate (16 row events), each coordinate used at most once",
                                     rule="state = set of rows in the file (canonical: all public attributes of the parsed input, location dimension sorted by id); "
                                          "transition = append one row, executed on the real reader from one representative order", wall=time.time() - t0))
    if only in (None, "meta"):
        t0 = time.time()
        m = RowMachine(core.seed(), (2, 1, 1), 2, meta_events=True)
        res = bfs.bfs(m, repo_root=core.REPO, time_cap=(600 if q else 1800), validate_merges=(300 if q else 5000))
        subs.append(core.Sub.from_e2("meta", res, bound="2x1x1 grid (4 row events) + 6 comment / metadata line events in any interleaving",
                                     rule="as rows; metadata lines may come anywhere before or after data rows", wall=time.time() - t0))
    if only in (None, "header"):
        t0 = time.time()
        st = explore.explore(h_header, mode="dev", k=(2 if q else 3), params={"subsets": all_subsets()}, repo_root=core.REPO, time_cap=(400 if q else 3000))
        subs.append(core.Sub.from_e1("header", st, bound="full 2^11-1 block of data-column subsets x dev(%d) over time / lead / station / lat-lon / elevation columns, separator, "
                                     "missing token, threshold spelling, column order, row order" % (2 if q else 3),
                                     rule="one execution = one file layout, every value / dimension / location metadata / threshold / member compared with the generating dataset",
                                     required_flags=("other+numbered",), wall=time.time() - t0))
    if only in (None, "rowperm"):
        t0 = time.time()
        n = 6 if q else 8
        st = explore.explore(h_rowperm, mode="full", params={"rows": n, "perms": list(itertools.permutations(range(n)))}, repo_root=core.REPO)
        subs.append(core.Sub.from_e1("rowperm", st, bound="all %d! row orders x {with, without lat/lon/elev}" % n, rule="no de-duplication", min_outcomes=1, wall=time.time() - t0))
    if only in (None, "sequence"):
        t0 = time.time()
        st = explore.explore(h_sequence, mode="full", repo_root=core.REPO)
        subs.append(core.Sub.from_e1("sequence", st, bound="all 3! orders of reading three files (two with the same columns and different values, one with obs and fcst only) in one process",
                                     rule="after all three are read every input object still describes its own file", min_outcomes=1, wall=time.time() - t0))
    return subs


def replay(rec):
    name = rec["subcheck"]
    if name in ("rows", "meta"):
        m = RowMachine(rec.get("seed", core.seed()), (2, 2, 2) if name == "rows" else (2, 1, 1), 2, meta_events=(name == "meta"))
        hist = [_ev(e) for e in rec["history"]]
        obj = m.build(tuple(hist[:-1]))
        try:
            m.apply(obj, hist[-1])
        except Exception as e:  # noqa
            return ["crash:" + core.E1.crash_site(e, core.REPO)[1]] if rec["signature"][1].startswith("crash") else []
        return [l for l, d in m.invariant(obj, tuple(hist)) if l == rec["signature"][1]]
    if name == "sequence":
        ctx, _ = explore.replay(h_sequence, rec["choices"], None, repo_root=core.REPO)
    elif name == "header":
        ctx, _ = explore.replay(h_header, rec["choices"], None, params={"subsets": all_subsets()}, repo_root=core.REPO)
    else:
        n = 6 if rec.get("tier") == "quick" else 8
        ctx, _ = explore.replay(h_rowperm, rec["choices"], None, params={"rows": n, "perms": list(itertools.permutations(range(n)))}, repo_root=core.REPO)
    return [v.locus for v in ctx.violations if v.locus == rec["signature"][1]]


def _ev(e):
    if e[0] == "meta":
        return ("meta", e[1])
    return ("row", e[1], e[2], e[3], e[4], e[5])
