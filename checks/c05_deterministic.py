"""C05 - deterministic scores equal their published definitions.

E1: all (obs, fcst) vector pairs of length 0..3 (thorough 0..4) over the alphabet {-1, 0, 1/2, 1, 2} (ties,
constants, zeros, negatives, single pairs), optional NaN injection at every position; for each, all
deterministic metrics, and for the aggregator-aware ones all 14 named aggregators + quantile levels {0, 1/4, 1/2, 1};
called through compute_from_obs_fcst, through Metric.compute on a Data object (axes no / obs / fcst with
intervals) and, on a stride, through the command line.
Oracle: mc/ref/metrics_det.py; relational checks: perfect forecast attains the perfect score, nothing beats it.
"""
import math
import os
import time

import numpy as np

from mc import core, explore, gen
from mc import harness as H
from mc.ref import metrics_det as MD
from mc.ref import aggregators as AG
from checks import common_data as CD

PID = "C05"
LEVEL = "exploration"
TECHNIQUE = "bounded exhaustive enumeration (E1) of all obs/fcst vector pairs up to a length over a colliding value alphabet, all metrics x aggregators, against textbook reference formulas; perfect-score relations on every vector"
ASSUMPTIONS = ["population (ddof=0) standard deviation / variance; linear-interpolated (type 7) quantile aggregators",
               "LEPS: |ECDF_obs(fcst) - ECDF_obs(obs)| with either the <= or the < empirical CDF",
               "value alphabet {-1, 0, 1/2, 1, 2} scaled by a seed-dependent power of two"]

ALPHA = [-1.0, 0.0, 0.5, 1.0, 2.0]
AGGS = AG.NAMES + [0.0, 0.25, 0.5, 1.0]
IMPL_NAME = {"obsstddev": "obsstddev", "fcststddev": "fcststddev"}


def tol_equal(exp, got, rtol=1e-9):
    """reference value (None = undefined) against the implementation's answer"""
    if got is np.ma.masked:
        got = float("nan")      # numpy's missing-value marker: converts to NaN in any numeric context
    try:
        g = float(got)
    except (TypeError, ValueError):
        return False
    if exp is None or (isinstance(exp, float) and (math.isnan(exp) or math.isinf(exp))):
        return math.isnan(g) or math.isinf(g)
    if math.isnan(g) or math.isinf(g):
        return False
    return exp == g or abs(exp - g) <= rtol * max(1.0, abs(exp), abs(g))


_M = {}


def get_metric(name):
    import verif.metric
    if name not in _M:
        _M[name] = verif.metric.get(name)
    return _M[name]


def set_agg(m, a):
    import verif.aggregator
    m.aggregator = verif.aggregator.get(a if isinstance(a, str) else repr(float(a)))


def call_from_obs_fcst(m, o, f):
    return H.quiet_call(m.compute_from_obs_fcst, np.array(o, dtype=float), np.array(f, dtype=float))


def harness(ctx):
    import verif.interval
    import verif.aggregator
    seed = core.seed()
    scale = [1.0, 0.5, 2.0, 0.25][seed % 4]
    alpha = [a * scale for a in ALPHA]
    maxlen = ctx.params["maxlen"]
    n = ctx.choose("length", list(range(0, maxlen + 1)), free=True)
    o, f = [], []
    for i in range(n):
        o.append(ctx.choose("obs%d" % i, alpha, free=True))
        f.append(ctx.choose("fcst%d" % i, alpha, free=True))
    nan_opts = [None]
    if n >= 1 and n <= ctx.params["nanlen"]:
        nan_opts += [("obs", i) for i in range(n)] + [("fcst", i) for i in range(n)]
    nan_at = ctx.choose("nan", nan_opts, free=True)
    oi, fi = list(o), list(f)
    if nan_at is not None:
        (oi if nan_at[0] == "obs" else fi)[nan_at[1]] = float("nan")
    vo = [a for a, b in zip(oi, fi) if not (math.isnan(a) or math.isnan(b))]
    vf = [b for a, b in zip(oi, fi) if not (math.isnan(a) or math.isnan(b))]
    perfect = len(vo) > 0 and vo == vf
    ctx.note("obs", oi)
    ctx.note("fcst", fi)
    sig = []
    # ---- way 1: compute_from_obs_fcst ----------------------------------------------------------------
    for name in MD.DETERMINISTIC:
        m = get_metric(name)
        aggs = AGGS if name in MD.AGG_AWARE else ["mean"]
        for a in aggs:
            if name in MD.AGG_AWARE:
                set_agg(m, a)
            kind, got, site, _ = call_from_obs_fcst(m, oi, fi)
            exp = MD.metric(name, vo, vf, a)
            tag = name if a == "mean" else "%s[%s]" % (name, a)
            if kind != "ok":
                # an exception is never an acceptable answer
                ctx.fail("%s:%s:%s" % (name, kind, site), obs=oi, fcst=fi, aggregator=a)
                continue
            if a != "mean" and exp is None:
                # aggregating values some of which are themselves undefined (log of a non-positive ratio, root of a negative
                # 'change') with another statistic than the mean is not specified: min/count/... may legitimately ignore them
                continue
            ok = tol_equal(exp, got)
            if not ok and name == "leps":
                ok = tol_equal(MD.metric("leps-left", vo, vf), got)
            if not ok:
                ctx.fail("%s:value" % name if a == "mean" else "%s:value-with-aggregator" % name, obs=oi, fcst=fi, aggregator=a, expected=exp,
                         actual=float(got) if got is not np.ma.masked else "masked")
            if a == "mean":
                sig.append(None if exp is None else round(exp, 9))
                # relations
                if perfect and name in MD.PERFECT and exp is not None:
                    ctx.flag("perfect")
                    if not tol_equal(float(MD.PERFECT[name]), got):
                        ctx.fail("%s:perfect-forecast-does-not-attain-perfect-score" % name, obs=oi, expected=MD.PERFECT[name], actual=float(got))
                if name in MD.ORIENTATION and kind == "ok":
                    g = float(got)
                    if not (math.isnan(g) or math.isinf(g)):
                        ps = MD.PERFECT[name]
                        better = (g < ps - 1e-9) if MD.ORIENTATION[name] < 0 else (g > ps + 1e-9)
                        if better:
                            ctx.fail("%s:better-than-perfect" % name, obs=oi, fcst=fi, actual=g, perfect=ps)
        if name in MD.AGG_AWARE:
            set_agg(m, "mean")
        elif len(vo) >= 2:
            # "-m <metric> does not support -agg": the driver still sets the attribute; the score must not depend on it
            set_agg(m, "max")
            kind2, got2, site2, _ = call_from_obs_fcst(m, oi, fi)
            set_agg(m, "mean")
            exp0 = MD.metric(name, vo, vf)
            if kind2 == "ok" and exp0 is not None and not tol_equal(exp0, got2) and not (name == "leps" and tol_equal(MD.metric("leps-left", vo, vf), got2)):
                ctx.fail("%s:depends-on-an-aggregator-it-does-not-support" % name, obs=oi, fcst=fi, expected=exp0, actual=float(got2))
    # within (needs an interval): the error bound classes below / equal / above the largest error
    w = get_metric("within")
    for (lo, hi, loe, hie) in ((float("-inf"), 1.0 * scale, False, False), (float("-inf"), 1.0 * scale, False, True),
                               (0.5 * scale, 1.5 * scale, True, False)):
        iv = verif.interval.Interval(lo, hi, loe, hie)
        if len(oi) == 0:
            continue
        kind, got, site, _ = H.quiet_call(w.compute_from_obs_fcst, np.array(oi), np.array(fi), iv)
        # Within is not an ObsFcstBased metric: it is given the valid pairs only
        if nan_at is None:
            exp = MD.metric("within", vo, vf, interval=(lo, hi, loe, hie))
            if kind != "ok":
                ctx.fail("within:%s:%s" % (kind, site), obs=oi, fcst=fi)
            elif not tol_equal(exp, got):
                ctx.fail("within:value", obs=oi, fcst=fi, expected=exp, actual=float(got), interval=[lo, hi, loe, hie])
            if perfect and lo == float("-inf") and kind == "ok":
                ctx.require(tol_equal(100.0, got), "within:perfect-forecast-does-not-attain-perfect-score", obs=oi, actual=float(got))
    # ---- way 2: through a Data object ---------------------------------------------------------------------
    if ctx.params["data"] and 1 <= n <= ctx.params["datalen"]:
        data_level(ctx, oi, fi, vo, vf, scale)
    ctx.observe(tuple(sig))
    ctx.outcome("n=%d" % len(vo))
    ctx.nontrivial(len(vo) >= 1)


def data_level(ctx, oi, fi, vo, vf, scale):
    import verif.data
    import verif.axis
    import verif.interval
    n = len(oi)
    T0 = 1330387200
    ai = gen.AInput("A", [T0 + 3600 * i for i in range(n)], [0.0], [(1, 50.0, 10.0, 5.0)])
    ai.fields["obs"] = {(i, 0, 0): oi[i] for i in range(n) if not math.isnan(oi[i])}
    ai.fields["fcst"] = {(i, 0, 0): fi[i] for i in range(n) if not math.isnan(fi[i])}
    kind, data, site, out = H.quiet_call(verif.data.Data, [gen.mem_input(ai)])
    if kind != "ok":
        ctx.fail("data-%s:%s" % (kind, site))
        return
    ctx.flag("data")
    ivs = {"no": [None], "obs": [(0.25 * scale, float("inf"), False, False), (float("-inf"), 0.5 * scale, False, True)],
           "fcst": [(0.0, 1.0 * scale, True, True)]}
    for axname in ("no", "obs", "fcst"):
        axis = verif.axis.get(axname)
        for ivt in ivs[axname]:
            if ivt is None:
                iv = None
                so, sf = vo, vf
            else:
                iv = verif.interval.Interval(*ivt)
                key = vo if axname == "obs" else vf
                keep = [k for k, x in enumerate(key) if _in(x, ivt)]
                so, sf = [vo[k] for k in keep], [vf[k] for k in keep]
            for name in MD.DETERMINISTIC:
                m = get_metric(name)
                kind, got, site, _ = H.quiet_call(m.compute, data, 0, axis, iv)
                exp = MD.metric(name, so, sf, "mean")
                if kind != "ok":
                    ctx.fail("data:%s:%s:%s" % (name, kind, site), obs=oi, fcst=fi, axis=axname)
                    continue
                g = np.asarray(got).reshape(-1)
                ok = len(g) == 1 and tol_equal(exp, g[0])
                if not ok and name == "leps":
                    ok = len(g) == 1 and tol_equal(MD.metric("leps-left", so, sf), g[0])
                if not ok:
                    ctx.fail("data:%s:value:%s" % (name, axname), obs=oi, fcst=fi, expected=exp, actual=g.tolist(), interval=ivt)
            # the raw-field metrics do not pair obs with fcst: they see every non-missing value of their own field
            for name, own in (("obs", oi), ("fcst", fi)):
                if axname != "no":
                    continue
                m = get_metric(name)
                for a in ("mean", "max", "count", 0.5):
                    set_agg(m, a)
                    kind, got, site, _ = H.quiet_call(m.compute, data, 0, axis, None)
                    vals = [x for x in own if not math.isnan(x)]
                    exp = AG.aggregate(a, vals) if vals else (0.0 if a == "count" else None)
                    if kind != "ok":
                        ctx.fail("data:%s:%s:%s" % (name, kind, site), obs=oi, fcst=fi)
                    else:
                        g = np.asarray(got).reshape(-1)
                        ok = len(g) == 1 and (tol_equal(exp, g[0]) or (a == "count" and not vals and math.isnan(g[0])))
                        if not ok:
                            ctx.fail("data:%s:value-with-aggregator" % name, own=own, aggregator=a, expected=exp, actual=g.tolist())
                set_agg(m, "mean")


def _in(x, ivt):
    lo, hi, loe, hie = ivt
    above = x > lo or (loe and x == lo) or lo == float("-inf")
    below = x < hi or (hie and x == hi) or hi == float("inf")
    return above and below


# ---- way 3: the command line ----------------------------------------------------------------------------
def h_cli(ctx):
    seed = core.seed()
    scale = [1.0, 0.5, 2.0, 0.25][seed % 4]
    alpha = [a * scale for a in ALPHA]
    n = 3
    o = [ctx.choose("obs%d" % i, alpha, free=True) for i in range(n)]
    f = [ctx.choose("fcst%d" % i, alpha[::2] if i else alpha, free=True) for i in range(n)]
    T0 = 1330387200
    ai = gen.AInput("A", [T0 + 86400 * i for i in range(n)], [0.0], [(1, 50.0, 10.0, 5.0)])
    ai.fields["obs"] = {(i, 0, 0): o[i] for i in range(n)}
    ai.fields["fcst"] = {(i, 0, 0): f[i] for i in range(n)}
    d = os.path.join(H.scratch(), "c05cli")
    os.makedirs(d, exist_ok=True)
    p = gen.text_file(ai, os.path.join(d, "A.txt"))
    for name in MD.DETERMINISTIC:
        if name in MD.AGG_AWARE:
            # the same metric with another aggregator first: the plain run afterwards (same process) must use the mean again
            ra = H.run_cli([p, "-m", name, "-x", "no", "-type", "csv", "-agg", "max"])
            expa = MD.metric(name, o, f, "max")
            if ra.kind != "ok":
                ctx.fail("cli:%s:-agg:%s:%s" % (name, ra.kind, ra.site or ""), obs=o, fcst=f)
            elif expa is not None:
                hdr, rows = CD.parse_csv(ra.stdout)
                cell = rows[0][-1] if rows else ""
                if not CD.close_printed(expa, cell):
                    ctx.fail("cli:%s:value-with--agg-max" % name, obs=o, fcst=f, expected=expa, actual=cell)
        r = H.run_cli([p, "-m", name, "-x", "no", "-type", "csv"])
        exp = MD.metric(name, o, f)
        if r.kind != "ok":
            ctx.fail("cli:%s:%s:%s" % (name, r.kind, r.site or ""), obs=o, fcst=f, stdout=r.stdout[-200:])
            continue
        hdr, rows = CD.parse_csv(r.stdout)
        cell = rows[0][-1] if rows else ""
        ok = CD.close_printed(exp, cell) if exp is not None else (cell in ("nan", "inf", "-inf"))
        if not ok and name == "leps":
            ok = CD.close_printed(MD.metric("leps-left", o, f), cell)
        if not ok:
            ctx.fail("cli:%s:value" % name, obs=o, fcst=f, expected=exp, actual=cell)
    ctx.observe((tuple(o), tuple(f)))
    ctx.outcome("ok")
    ctx.nontrivial()

# ---- way 4: badly conditioned inputs ---------------------------------------------------------------------
OBS_DEC = [0.1, 0.2, 0.7, 1.3]
ERR_DEC = [0.0, 0.1]
SHIFTS = [273.15, -1234.5678, 101325.0]


def h_offset(ctx):
    """Decimal (not exactly representable) values carrying a large common offset, on the forecast only (a unit mix-up:
    constant error) or on both series (Kelvin data).  The reference is the two-pass / compensated-sum definition on exactly
    the floats handed to the metric; an implementation that is algebraically equal but cancels catastrophically
    (one-pass variance) answers NaN or ~1e-6 here, where any stable evaluation is within 1e-12."""
    n = ctx.choose("length", [2, 3], free=True)
    S = ctx.choose("shift", SHIFTS, free=True)
    mode = ctx.choose("mode", ["fcst", "both"], free=True)
    o = [ctx.choose("obs%d" % i, OBS_DEC, free=True) for i in range(n)]
    e = [ctx.choose("err%d" % i, ERR_DEC, free=True) for i in range(n)]
    oi = [a + (S if mode == "both" else 0.0) for a in o]
    fi = [a + b + S for a, b in zip(o, e)]
    ctx.note("obs", oi)
    ctx.note("fcst", fi)
    sig = []
    for name in MD.DETERMINISTIC:
        m = get_metric(name)
        if name in MD.AGG_AWARE:
            set_agg(m, "mean")
        kind, got, site, _ = call_from_obs_fcst(m, oi, fi)
        exp = MD.metric(name, oi, fi)
        if kind != "ok":
            ctx.fail("offset:%s:%s:%s" % (name, kind, site), obs=oi, fcst=fi)
            continue
        if exp is None:
            continue
        g = float(got) if got is not np.ma.masked else float("nan")
        ok = (not math.isnan(g)) and abs(exp - g) <= 1e-8 * max(1.0, abs(exp))
        if not ok and name == "leps":
            ok = tol_equal(MD.metric("leps-left", oi, fi), got)
        if not ok:
            ctx.fail("offset:%s:value" % name, obs=oi, fcst=fi, expected=exp, actual=g)
        sig.append(round(exp, 9))
    if not any(e):
        ctx.flag("constant-error")
    ctx.observe(tuple(sig))
    ctx.outcome("%s/%s" % (mode, "constant-error" if not any(e) else "varying-error"))
    ctx.nontrivial()


SCALES = [1e-5, 1e-3, 1e4]
SC_OBS = [1.0, 2.0, 4.0]
SC_FCST = [1.0, 3.0, 4.0]


def h_scale(ctx):
    """The same small vectors in other units: every value multiplied by a common scale (precipitation rate in kg/m2/s is
    about 1e-5, pressure in Pa about 1e4+).  The definitions have no absolute scale: a score that is defined for (o, f) is
    defined for (s*o, s*f); a guard or tolerance with an absolute size (isclose(x, 0), a fixed epsilon) is not."""
    S = ctx.choose("scale", SCALES, free=True)
    o = [ctx.choose("obs%d" % i, SC_OBS, free=True) for i in range(3)]
    f = [ctx.choose("fcst%d" % i, SC_FCST, free=True) for i in range(3)]
    oi = [a * S for a in o]
    fi = [a * S for a in f]
    ctx.note("obs", oi)
    ctx.note("fcst", fi)
    sig = []
    for name in MD.DETERMINISTIC:
        m = get_metric(name)
        if name in MD.AGG_AWARE:
            set_agg(m, "mean")
        kind, got, site, _ = call_from_obs_fcst(m, oi, fi)
        exp = MD.metric(name, oi, fi)
        if kind != "ok":
            ctx.fail("scale:%s:%s:%s" % (name, kind, site), obs=oi, fcst=fi)
            continue
        if exp is None:
            continue
        g = float(got) if got is not np.ma.masked else float("nan")
        ok = (not math.isnan(g)) and abs(exp - g) <= 1e-8 * max(abs(exp), min(S, 1.0))
        if not ok and name == "leps":
            ok = tol_equal(MD.metric("leps-left", oi, fi), got)
        if not ok:
            ctx.fail("scale:%s:value" % name, obs=oi, fcst=fi, expected=exp, actual=g, scale=S)
        sig.append(float("%.6g" % exp))
    ctx.observe(tuple(sig))
    ctx.outcome("scale=%g" % S)
    ctx.nontrivial(len(set(o)) > 1 and len(set(f)) > 1)


def plan(tier):
    if tier == "quick":
        return [("vectors", harness, {"maxlen": 3, "nanlen": 2, "data": True, "datalen": 2}), ("cli", h_cli, {}), ("offset", h_offset, {}), ("scale", h_scale, {})]
    return [("vectors", harness, {"maxlen": 4, "nanlen": 3, "data": True, "datalen": 3}), ("cli", h_cli, {}), ("offset", h_offset, {}), ("scale", h_scale, {})]


def run(tier, only=None):
    subs = []
    for name, h, params in plan(tier):
        if only and only != name:
            continue
        t0 = time.time()
        st = explore.explore(h, mode="full", params=params, repo_root=core.REPO, time_cap=(300 if tier == "quick" else 3000))
        if name == "offset":
            subs.append(core.Sub.from_e1(name, st, bound="full product: length {2,3} x offsets %r x {forecast only, both} x 4 decimal obs values x 2 errors per position" % (SHIFTS,),
                                         rule="one execution = one offset vector pair, 22 metrics against the two-pass reference (1e-8 relative); "
                                              "non-trivial = every execution (all have valid pairs)",
                                         required_flags=("constant-error",), wall=time.time() - t0))
            continue
        if name == "scale":
            subs.append(core.Sub.from_e1(name, st, bound="full product: scales %r x obs in %r^3 x fcst in %r^3" % (SCALES, SC_OBS, SC_FCST),
                                         rule="one execution = one scaled vector pair, 22 metrics against the reference (1e-8 relative to the score or the unit); "
                                              "non-trivial = neither series constant", wall=time.time() - t0))
            continue
        subs.append(core.Sub.from_e1(name, st, bound="full product of vector pairs %r over a 5-value alphabet" % (params,),
                                     rule="one execution = one (obs, fcst) vector pair (+ optional NaN position): 22 metrics, 7 x 18 aggregator variants, "
                                          "within x 3 intervals, and (short vectors) Data-level compute on axes no/obs/fcst; non-trivial = at least one valid pair",
                                     required_flags=("perfect", "data") if name == "vectors" else (), wall=time.time() - t0))
    return subs


def replay(rec):
    for tier in (rec.get("tier", "quick"), "thorough", "quick"):
        for name, h, params in plan(tier):
            if name == rec["subcheck"]:
                ctx, _ = explore.replay(h, rec["choices"], None, params=params, repo_root=core.REPO)
                return [v.locus for v in ctx.violations if v.locus == rec["signature"][1]]
    return []
