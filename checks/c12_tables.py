"""C12 - text and CSV outputs report exactly the computed scores.

E1, full product: inputs N in {1,2,3} x metric x axis (all data dimensions, threshold / obs / fcst with -r lists in non-ascending
order) x type {csv, text} x {-f, -leg, -acc} on/off.  The output is parsed back and compared with the reference dataset model +
reference metric definitions: header, one row per slice in axis order, leading fields identifying the slice, numbers rounded to
6 (csv) / 4 (text) significant digits, -f file content == stdout content, -acc = running sums.
"""
import math
import os
import re
import time

from mc import core, explore, gen, datasets
from mc import harness as H
from mc.ref import dataset as RD
from mc.ref import calendar as cal
from mc.ref import scores as RS
from checks import common_data as CD

PID = "C12"
LEVEL = "exploration"
TECHNIQUE = "bounded exhaustive enumeration (E1): full product of inputs x metric x axis x output type x -f/-leg/-acc through the real driver; the printed table is parsed back and compared with reference scores rounded to the documented precision"
ASSUMPTIONS = ["formatted dates are compared by their integer groups (year, month, day, ...), not by separator characters",
               "several thresholds with a data dimension on the x-axis: the reported score is the arithmetic mean of the per-threshold scores and is undefined (nan) where one of them is undefined (output.py: 'Average all thresholds'; not in the help text)"]

DAY = 86400
TIMES = [cal.days_from_civil(2012, 2, 28) * DAY, cal.days_from_civil(2012, 2, 29) * DAY + 6 * 3600,
         cal.days_from_civil(2012, 3, 1) * DAY, cal.days_from_civil(2012, 3, 5) * DAY + 12 * 3600]
DATA_AXES = ["time", "leadtime", "location", "lat", "lon", "elev", "year", "month", "week", "day", "timeofday", "dayofyear",
             "monthofyear", "dayofmonth", "leadtimeday", "no"]
DATE_AXES = ["time", "year", "month", "week", "day"]
METRICS_Q = ["mae", "bias", "corr", "obs", "fcst", "ets", "bs", "quantilescore", "rmse", "hit"]
NEEDS_THR = {"ets": "2", "hit": "2", "bs": "2", "far": "2", "threat": "2", "bss": "2", "pc": "2"}
DEFAULT_BIN = {"within": "below"}


def build(n, seed):
    locs = gen.std_locs(3, seed)
    leads = [0.0, 12.0, 24.0]
    names = ["Alpha.txt", "Beta.txt", "Gamma.txt"][:n]
    inputs = []
    for k, name in enumerate(names):
        miss = [("fcst", (0, 1, 1))] if k == 0 else ([("fcst", (2, 2, 0)), ("obs", (1, 0, 2))] if k == 1 else [("p2", (3, 1, 1))])
        inputs.append(datasets.full_input(name, TIMES, leads, locs, k=k, seed=seed, missing=miss))
    return inputs


def sig_digits(cell):
    s = cell.lower().lstrip("+-")
    if "e" in s:
        s = s.split("e")[0]
    s = s.replace(".", "").lstrip("0")
    return len(s.rstrip("0")) if s else 0


def ints_of(s):
    return [int(x) for x in re.findall(r"\d+", s)]


def expected_date_ints(ut, ax):
    y, m, d, day, sec = cal.split(ut)
    if ax == "time":
        return [y, m, d, sec // 3600, sec // 60 % 60, sec % 60]
    if ax == "year":
        return [y]
    if ax == "month":
        return [y, m]
    if ax == "day":
        return [y, m, d]
    if ax == "week":
        return ints_of(cal.fmt_time(ut, "week"))
    raise ValueError(ax)


def parse_table(text, typ):
    lines = [l for l in text.split("\n") if l.strip() and not l.startswith("Warning")]
    if not lines:
        return None, []
    if typ == "csv":
        return lines[0].split(","), [l.split(",") for l in lines[1:]]
    rows = []
    for l in lines:
        parts = [p.strip() for p in l.split("|")]
        if parts and parts[-1] == "":
            parts = parts[:-1]
        rows.append(parts)
    return rows[0], rows[1:]


def harness(ctx):
    seed = core.seed()
    p = ctx.params
    n = ctx.choose("inputs", p["ns"], free=True)
    metric = ctx.choose("metric", p["metrics"], free=True)
    thr_metric = metric in NEEDS_THR or metric in ("quantilescore", "within")
    axes = [a for a in p["axes"] if (a in DATA_AXES and metric != "within") or (a == "threshold" and thr_metric) or (a in ("obs", "fcst") and not thr_metric and metric != "pit")]
    axis = ctx.choose("axis", axes, free=True)
    typ = ctx.choose("type", ("csv", "text"), free=True)
    use_f = ctx.choose_bool("-f", free=True)
    use_leg = ctx.choose_bool("-leg", free=True)
    use_acc = ctx.choose_bool("-acc", free=True)
    inputs = build(n, seed)
    d = os.path.join(H.scratch(), "c12-%d" % n)
    if axis == "location" and ctx.choose("seven-digit-station-ids", (False, True), free=True):
        # identifiers are printed in full (two stations must never share a row label)
        for ai in inputs:
            ai.locs = [(1234567 + 7 * j,) + tuple(l[1:]) for j, l in enumerate(ai.locs)]
        d += "-ids7"
        ctx.flag("seven-digit-ids")
    if metric == "corr" and n >= 2 and ctx.choose("last-input-has-a-constant-forecast", (False, True), free=True):
        # a score that is undefined (nan) on every row for one input only, although its data are valid
        for pos in inputs[-1].fields["fcst"]:
            inputs[-1].fields["fcst"][pos] = 1.0
        d += "-const"
        ctx.flag("undefined-column")
    os.makedirs(d, exist_ok=True)
    paths = []
    for ai in inputs:
        pth = os.path.join(d, ai.name)
        if not os.path.exists(pth):
            gen.text_file(ai, pth)
        paths.append(pth)
    ref = RD.RefData(inputs)
    argv = list(paths) + ["-m", metric, "-type", typ]
    thresholds = None
    bin_type = DEFAULT_BIN.get(metric, "above")
    if axis in ("threshold", "obs", "fcst"):
        thresholds = [2.0, 1.0, 3.0] if axis == "threshold" else [1.0, 2.5, 0.5]
        if metric == "quantilescore":
            thresholds = [0.9, 0.1, 0.5]
            argv += ["-q", ",".join(gen.fmt_num(t) for t in thresholds)]
        else:
            argv += ["-r", ",".join(gen.fmt_num(t) for t in thresholds)]
    elif metric in NEEDS_THR:
        thresholds = [float(NEEDS_THR[metric])]
        if ctx.choose("thresholds-on-data-axis", ("one", "two"), free=True) == "two":
            # several thresholds on a data axis: the score is the average over the thresholds ("Average all thresholds" in
            # output.py), undefined where it is undefined for one of them.  8 is above every observation.
            thresholds = [float(NEEDS_THR[metric]), 8.0]
            ctx.flag("two-thresholds")
        argv += ["-r", ",".join(gen.fmt_num(t) for t in thresholds)]
    elif metric == "quantilescore":
        thresholds = [0.5]
        argv += ["-q", "0.5"]
    argv += ["-x", axis]
    legend = None
    if use_leg:
        legend = ["L%d sys" % i for i in range(n)]
        argv += ["-leg", ",".join(l.replace(" ", "_") for l in legend)]
    if use_acc:
        argv += ["-acc"]
    ctx.note("argv", [os.path.basename(a) if a.startswith("/") else a for a in argv])
    r0 = H.run_cli(argv)
    if r0.kind == "crash":
        ctx.fail("crash:%s" % r0.site, argv=ctx.notes["argv"])
        ctx.outcome("crash")
        return
    if r0.kind == "exit":
        ctx.fail("rejected:%s:%s" % (metric, axis), stdout=r0.stdout[-200:])
        ctx.outcome("exit")
        return
    out = r0.stdout
    if use_f:
        fpath = os.path.join(H.scratch(), "c12-out-%d.txt" % os.getpid())
        if os.path.exists(fpath):
            os.remove(fpath)
        r1 = H.run_cli(argv + ["-f", fpath])
        if r1.kind != "ok" or not os.path.exists(fpath):
            ctx.fail("-f:no-file", kind=r1.kind, site=r1.site)
            return
        content = open(fpath).read()
        body0 = "\n".join(l for l in out.split("\n") if l.strip() and not l.startswith("Warning"))
        ctx.require(content.strip() == body0.strip(), "-f:file-differs-from-screen", file=content[-300:], screen=body0[-300:])
        body1 = [l for l in r1.stdout.split("\n") if l.strip() and not l.startswith("Warning")]
        ctx.require(not body1, "-f:also-printed-to-screen", stdout=r1.stdout[-200:])
        out = content
    hdr, rows = parse_table(out, typ)
    if hdr is None:
        ctx.fail("no-output")
        return
    digits = 6 if typ == "csv" else 4
    # ---- expected rows --------------------------------------------------------------------------------------------
    if axis in ("threshold", "obs", "fcst"):
        ivs = RS.intervals(bin_type, thresholds)
        nrows = len(ivs)
        lead_cols = 1
    else:
        vals = ref.axis_values(axis)
        nrows = len(vals)
        lead_cols = 4 if axis in RD.LOC_AXES else 1
    ncols = lead_cols + n
    if not ctx.require(len(hdr) == ncols and all(len(r) == ncols for r in rows), "layout:column-count", expected=ncols, header=hdr,
                       rows=[len(r) for r in rows]):
        return
    if not ctx.require(len(rows) == nrows, "layout:row-count", expected=nrows, actual=len(rows), axis=axis):
        return
    names = legend if legend else [ai.name for ai in inputs]
    ctx.require(hdr[lead_cols:] == names, "header:input-columns", expected=names, actual=hdr[lead_cols:])
    if axis in RD.LOC_AXES:
        ctx.require([h.lower() for h in hdr[:4]] == ["id", "lat", "lon", "elev"], "header:location-columns", actual=hdr[:4])
    else:
        want = {"threshold": "thr", "obs": "obs", "fcst": "for"}.get(axis, axis[:3])
        ctx.require(want in hdr[0].lower() or (axis == "fcst" and "fcst" in hdr[0].lower()), "header:x-column", expected=axis, actual=hdr[0])
    acc = [0.0] * n
    sig = []
    for k in range(nrows):
        row = rows[k]
        # leading fields
        if axis in ("threshold", "obs", "fcst"):
            iv = ivs[k]
            try:
                ctx.require(abs(float(row[0]) - thresholds[k]) < 1e-9, "row-label:threshold", expected=thresholds[k], actual=row[0], axis=axis)
            except ValueError:
                ctx.fail("row-label:threshold", expected=thresholds[k], actual=row[0])
        elif axis in DATE_AXES:
            ctx.require(ints_of(row[0]) == expected_date_ints(vals[k], axis), "row-label:date:%s" % axis, expected=expected_date_ints(vals[k], axis),
                        actual=row[0])
        elif axis in RD.LOC_AXES:
            meta = ref.locmeta[k]
            ok = all(CD.close_printed(float(meta[j]), row[j], 6) for j in range(1, 4))
            # the identifier is printed in full in both formats (two stations never share a row label)
            try:
                ok = ok and float(row[0]) == float(meta[0])
            except ValueError:
                ok = False
            ctx.require(ok, "row-label:location", expected=list(meta), actual=row[:4])
        elif axis != "no":
            ctx.require(CD.close_printed(float(vals[k]), row[0], 6), "row-label:%s" % axis, expected=vals[k], actual=row[0])
        # numbers
        for i in range(n):
            if axis == "threshold":
                e = RS.score(ref, metric, i, "no", 0, iv=ivs[k])
            elif axis in ("obs", "fcst"):
                e = RS.score(ref, metric, i, "no", 0, iv=None, axis_filter=(axis, ivs[k]))
            else:
                ivl = RS.intervals(bin_type, thresholds) if thresholds else [None]
                parts = [RS.score(ref, metric, i, axis, k, iv=iv1) for iv1 in ivl]
                if len(parts) == 1:
                    e = parts[0]
                elif any(x is None or math.isnan(x) for x in parts):
                    e = None
                    ctx.flag("undefined-for-one-threshold")
                else:
                    e = math.fsum(parts) / len(parts)
            if use_acc:
                acc[i] += 0.0 if (e is None or math.isnan(e) or math.isinf(e)) else e
                e = acc[i]
            cell = row[lead_cols + i]
            ok = CD.close_printed(e, cell, digits) if e is not None and not (isinstance(e, float) and math.isinf(e)) else cell in ("nan", "inf", "-inf")
            if not ok:
                ctx.fail("value:%s:%s" % (metric, "acc" if use_acc else typ), axis=axis, row=k, input=i, expected=e, actual=cell)
            elif e is not None and cell not in ("nan", "inf", "-inf"):
                if sig_digits(cell) > digits:
                    ctx.fail("precision:%s" % typ, cell=cell, digits=digits)
            sig.append(cell)
    ctx.observe((n, metric, axis, typ, use_f, use_leg, use_acc, tuple(sig)))
    ctx.outcome(typ)
    ctx.nontrivial(nrows > 1 or n > 1)


def h_obsfcst(ctx):
    """the obsfcst diagram's table: obs column, one forecast column per input, optional quantile columns per input"""
    seed = core.seed()
    n = ctx.choose("inputs", (1, 2, 3), free=True)
    axis = ctx.choose("axis", ["leadtime", "time", "location", "month", "no", "leadtimeday"], free=True)
    typ = ctx.choose("type", ("csv", "text"), free=True)
    qs = ctx.choose("quantiles", (None, [0.1, 0.9], [0.9, 0.5, 0.1], [0.5]), free=True)
    agg = ctx.choose("agg", ("mean", "max"), free=True)
    inputs = build(n, seed)
    d = os.path.join(H.scratch(), "c12-%d" % n)
    os.makedirs(d, exist_ok=True)
    paths = []
    for ai in inputs:
        pth = os.path.join(d, ai.name)
        if not os.path.exists(pth):
            gen.text_file(ai, pth)
        paths.append(pth)
    ref = RD.RefData(inputs)
    argv = paths + ["-m", "obsfcst", "-x", axis, "-type", typ, "-agg", agg]
    if qs:
        argv += ["-q", ",".join(gen.fmt_num(q) for q in qs)]
    ctx.note("argv", [os.path.basename(a) if a.startswith("/") else a for a in argv])
    r = H.run_cli(argv)
    if r.kind != "ok":
        ctx.fail("obsfcst:%s:%s" % (r.kind, r.site or ""), stdout=r.stdout[-200:])
        return
    hdr, rows = parse_table(r.stdout, typ)
    lead = 4 if axis in RD.LOC_AXES else 1
    names = [ai.name for ai in inputs]
    expect_cols = ["obs"] + names + ["%s %g%%" % (nm, q * 100) for q in (qs or []) for nm in names]
    if not ctx.require(hdr[lead:] == expect_cols, "obsfcst:header", expected=expect_cols, actual=hdr[lead:]):
        return
    from mc.ref import aggregators as AG
    digits = 6 if typ == "csv" else 4
    nrows = len(ref.axis_values(axis))
    if not ctx.require(len(rows) == nrows, "obsfcst:row-count", expected=nrows, actual=len(rows)):
        return
    for k in range(nrows):
        col = lead
        vals = [o for o, f in ref.request(["obs", "fcst"], 0, axis, k)]
        exp = [AG.aggregate(agg, vals) if vals else None]
        for i in range(n):
            v = [f for f, o in ref.request(["fcst", "obs"], i, axis, k)]
            exp.append(AG.aggregate(agg, v) if v else None)
        for q in (qs or []):
            for i in range(n):
                v = [x for x, o in ref.request([("q", q), "obs"], i, axis, k)]
                exp.append(AG.aggregate(agg, v) if v else None)
        for j, e in enumerate(exp):
            cell = rows[k][lead + j]
            ok = CD.close_printed(e, cell, digits) if e is not None else cell == "nan"
            if not ok:
                ctx.fail("obsfcst:value:%s" % ("obs" if j == 0 else ("fcst" if j <= n else "quantile")), column=expect_cols[j], row=k, expected=e, actual=cell, axis=axis)
    ctx.observe((n, axis, typ, tuple(qs or ()), agg, tuple(tuple(r) for r in rows)))
    ctx.outcome(typ)
    ctx.nontrivial()


def h_names(ctx):
    """columns are per input file even when two inputs carry the same name"""
    seed = core.seed()
    typ = ctx.choose("type", ("csv", "text"), free=True)
    how = ctx.choose("names", ("same-basename", "same-legend", "legend-like-dimension"), free=True)
    axis = ctx.choose("axis", ("leadtime", "location", "no"), free=True)
    inputs = build(2, seed)
    paths = []
    for k, ai in enumerate(inputs):
        d = os.path.join(H.scratch(), "c12names", "exp%d" % k)
        os.makedirs(d, exist_ok=True)
        pth = os.path.join(d, "scores.txt" if how == "same-basename" else ai.name)
        gen.text_file(ai, pth)
        paths.append(pth)
    argv = paths + ["-m", "mae", "-x", axis, "-type", typ]
    if how == "same-legend":
        argv += ["-leg", "sys,sys"]
    elif how == "legend-like-dimension":
        argv += ["-leg", "lat,Leadtime"]
    ref = RD.RefData(inputs)
    r = H.run_cli(argv)
    if r.kind != "ok":
        ctx.fail("names:%s:%s" % (r.kind, r.site or "rejected"), stdout=r.stdout[-200:])
        return
    hdr, rows = parse_table(r.stdout, typ)
    lead = 4 if axis in RD.LOC_AXES else 1
    if not ctx.require(len(hdr) == lead + 2 and all(len(x) == lead + 2 for x in rows), "names:column-count", header=hdr):
        return
    for k in range(len(rows)):
        for i in range(2):
            e = RS.score(ref, "mae", i, axis, k)
            cell = rows[k][lead + i]
            ok = CD.close_printed(e, cell, 6 if typ == "csv" else 4) if e is not None else cell == "nan"
            if not ok:
                ctx.fail("names:column-holds-another-inputs-scores:%s" % how, type=typ, row=k, input=i, expected=e, actual=cell, header=hdr)
    ctx.observe((typ, how, axis, tuple(tuple(x) for x in rows)))
    ctx.outcome(how)
    ctx.nontrivial()


REFUSING = ["qq", "scatter", "cond", "freq", "reliability", "roc", "taylor", "pithist", "performance", "error", "marginal",
            "discrimination", "murphy", "economicvalue", "bsdecomp", "igncontrib", "spreadskill", "timeseries", "meteo", "against",
            "change", "autocorr", "autocov", "droc", "droc0", "invreliability"]


def h_refuse(ctx):
    """diagrams without a table form must refuse -type text|csv with an error"""
    seed = core.seed()
    m = ctx.choose("diagram", REFUSING, free=True)
    typ = ctx.choose("type", ("csv", "text"), free=True)
    inputs = build(2, seed)
    d = os.path.join(H.scratch(), "c12-2")
    os.makedirs(d, exist_ok=True)
    paths = []
    for ai in inputs:
        pth = os.path.join(d, ai.name)
        if not os.path.exists(pth):
            gen.text_file(ai, pth)
        paths.append(pth)
    r = H.run_cli(paths + ["-m", m, "-type", typ, "-r", "2"])
    if r.kind == "crash":
        ctx.fail("refuse:crash:%s" % r.site, diagram=m)
    elif r.kind == "ok":
        body = [l for l in r.stdout.split("\n") if l.strip() and not l.startswith("Warning")]
        ctx.require(False, "refuse:silently-accepted:%s" % m, stdout=r.stdout[-200:])
    else:
        ctx.require(r.code not in (0, None) and "Error" in r.stdout, "refuse:no-message", stdout=r.stdout[-200:])
    ctx.observe((m, typ, r.kind))
    ctx.outcome(r.kind)
    ctx.nontrivial()


def plan(tier):
    q = tier == "quick"
    return [("tables", harness, {"ns": [1, 2, 3] if not q else [1, 2, 3], "metrics": METRICS_Q if q else METRICS_Q + ["stderror", "rankcorr", "far", "threat", "bss", "pc", "mbias", "within", "pit"],
                                 "axes": DATA_AXES + ["threshold", "obs", "fcst"]}),
            ("obsfcst", h_obsfcst, {}), ("names", h_names, {}), ("refuse", h_refuse, {})]


def run(tier, only=None):
    subs = []
    for name, h, params in plan(tier):
        if only and only != name:
            continue
        t0 = time.time()
        st = explore.explore(h, mode="full", params=params, repo_root=core.REPO, time_cap=(400 if tier == "quick" else 3000))
        subs.append(core.Sub.from_e1(name, st, bound={"tables": "full product inputs x metrics x axes x {csv,text} x -f x -leg x -acc (x {one, two} thresholds for threshold metrics on data axes)", "refuse": "26 diagrams x {csv,text}", "obsfcst": "full product inputs x 6 axes x {csv,text} x 4 quantile lists x 2 aggregators", "names": "{csv,text} x 3 ways of giving two inputs the same / a confusing name x 3 axes"}[name],
                                     rule="one execution = one command line; header, row labels and every number compared with the reference; non-trivial = more than one row or column",
                                     required_flags=("two-thresholds", "undefined-for-one-threshold", "undefined-column", "seven-digit-ids") if name == "tables" else (), wall=time.time() - t0))
    return subs


def replay(rec):
    for tier in (rec.get("tier", "quick"), "thorough", "quick"):
        for name, h, params in plan(tier):
            if name == rec["subcheck"]:
                ctx, _ = explore.replay(h, rec["choices"], None, params=params, repo_root=core.REPO)
                return [v.locus for v in ctx.violations if v.locus == rec["signature"][1]]
    return []
