"""C03 - verified dimensions = intersection of the inputs and the user's subset.

 api       E1 over the nine subsetting options x {absent, 3 values each} (+ -obsrange) on verif.data.Data
           (quick: dev(3); thorough: the full 4^9 product), in-memory inputs in mutually different orders
 lattice   E2: breadth-first search over command lines: state = set of options given so far, event = add one
           more option; every transition runs the real driver (--list-times / --list-locations / -type csv) with
           the options in path order; merges of different orders are validated by bisimulation
Oracle: mc/ref/dataset.py selection (ascending, duplicate-free, inclusive ranges, -lx last); an empty selection
must end in an error or NaN, never in a finite score.
"""
import math
import os
import time

import numpy as np

from mc import core, explore, bfs, gen
from mc import harness as H
from mc.ref import dataset as RD
from mc.ref import calendar as cal
from checks import common_data as CD

PID = "C03"
LEVEL = "model_checking"
TECHNIQUE = "explicit-state BFS (E2) over the lattice of subsetting options through the real driver, plus bounded exhaustive enumeration (E1) of option combinations on the Data API, against the reference selection model"
ASSUMPTIONS = ["repeated flags are excluded (order semantics undocumented)", "initialisation times are whole hours (-tod semantics for fractional hours is not documented)"]

H6 = 6 * 3600
DAY = 86400
T0 = 1330387200      # 2012-02-28 00 UTC


def dataset(seed, with_clim, near=False, unknown_elev=False, b_own_obs=False, dateline=False):
    """near=True: hourly initialisation times and consecutive 7-digit station ids, i.e. coordinates that differ by less
    than any plausible relative tolerance (selection is by exact value)"""
    locs = gen.std_locs(4, seed)          # ids 100+.., lat 40,42.5,45,47.5 ; lon -120.. ; elev 1000,1250,1500,1750
    H6 = 3600 if near else 6 * 3600
    if near:
        locs = [(1000231 + i,) + tuple(l[1:]) for i, l in enumerate(locs)]
    if dateline:
        # the last station sits exactly on the 180th meridian (the inclusive end of a longitude range)
        locs = [l if i != 3 else (l[0], l[1], 180.0, l[3]) for i, l in enumerate(locs)]
    if unknown_elev:
        # a station whose elevation is unknown (a NetCDF file without a value for it): inside no elevation range
        locs = [l if i != 1 else (l[0], l[1], l[2], float("nan")) for i, l in enumerate(locs)]
    times = [T0, T0 + H6, T0 + 2 * H6, T0 + DAY, T0 + DAY + H6, T0 + DAY + 2 * H6]
    leads = [0.0, 6.0, 12.0]
    vals = gen.unique_values(seed, 400)
    A = gen.AInput("A.txt", times, leads, locs)
    # B: different order, lacks one time and one location, has an extra lead time
    tB = [times[i] for i in (4, 0, 3, 1, 5)]
    B = gen.AInput("B.txt", tB, [12.0, 0.0, 6.0, 18.0], [locs[i] for i in (2, 0, 3, 1)])
    obs = {}
    k = 0
    for t in times:
        for l in leads + [18.0]:
            for s in locs:
                obs[(t, l, s[0])] = vals[k % len(vals)]
                k += 1
    for ai, salt in ((A, 0), (B, 150)):
        fo, ff = {}, {}
        for n, pos in enumerate(ai.positions()):
            key = (ai.times[pos[0]], ai.leads[pos[1]], ai.locs[pos[2]][0])
            fo[pos] = obs[key]
            ff[pos] = vals[(salt + 97 + n * 7) % len(vals)]
        ai.fields["obs"] = fo
        ai.fields["fcst"] = ff
    del A.fields["fcst"][(0, 0, 0)]
    if b_own_obs:
        # B carries observations of its own that differ from A's at three cases (far outside any observation range used here)
        for pos in B.positions()[3::17][:3]:
            B.fields["obs"][pos] = B.fields["obs"][pos] + 1000.0
    clim = None
    if with_clim:
        tK = [times[i] for i in (0, 1, 3, 4, 5, 2)]
        clim = gen.AInput("K.txt", tK, leads, locs[:3] + [locs[3]])
        clim.fields["fcst"] = {pos: vals[(300 + n * 3) % len(vals)] for n, pos in enumerate(clim.positions())}
    return A, B, clim, locs, times


def option_values(locs, times, near=False):
    ids = [l[0] for l in locs]
    lats = [l[1] for l in locs]
    lons = [l[2] for l in locs]
    elevs = [l[3] for l in locs]
    d0 = cal.unixtime_to_date(T0)
    d1 = cal.unixtime_to_date(T0 + DAY)
    return {
        "-t": [[times[0], times[3]], [times[0] + 1], [times[4], times[1], times[1]]],
        "-d": [[d0], [d1, d0], [cal.add_days(d0, 5)]],
        "-tod": [[0], [1, 2] if near else [6, 12], [18]],
        "-o": [[0.0], [12.0, 6.0, 24.0], [99.0]],
        "-l": [[ids[0], ids[2]], [ids[3]], [999]],
        "-lx": [[ids[0]], list(ids), [999]],
        "-latrange": [[lats[0], lats[2]], [lats[0] + 1, lats[3] + 1], [0, 1]],
        "-lonrange": [[lons[1], lons[1]], [lons[0] - 1, lons[2] - 0.5], [10, 20]],
        "-elevrange": [[elevs[1], elevs[3]], [0, elevs[0]], [5000, 6000]],
    }


OPTS = ["-t", "-d", "-tod", "-o", "-l", "-lx", "-latrange", "-lonrange", "-elevrange"]
KW = {"-t": "times", "-d": "dates", "-tod": "tods", "-o": "leadtimes", "-l": "locations", "-lx": "locations_x",
      "-latrange": "lat_range", "-lonrange": "lon_range", "-elevrange": "elev_range"}


def fmt_list(v):
    return ",".join(gen.fmt_num(x) for x in v)


def check_selection(ctx_fail, ref, data_times, data_leads, data_locs, tag):
    ok = True
    if [float(x) for x in data_times] != [float(x) for x in ref.T]:
        ctx_fail("%s:times" % tag, expected=ref.T, actual=[float(x) for x in data_times])
        ok = False
    if data_leads is not None and [float(x) for x in data_leads] != [float(x) for x in ref.L]:
        ctx_fail("%s:leadtimes" % tag, expected=ref.L, actual=[float(x) for x in data_leads])
        ok = False
    if [x for x in data_locs] != list(ref.S):
        ctx_fail("%s:locations" % tag, expected=ref.S, actual=list(data_locs))
        ok = False
    return ok


# ------------------------------------------------------------------------------------------------------
def h_api(ctx):
    seed = core.seed()
    with_clim = ctx.choose("clim", (False, True), free=True)
    near = bool(ctx.params.get("near"))
    extras = ctx.params.get("extras", True)
    unknown_elev = ctx.choose("unknown-elevation", (False, True)) if extras else False
    b_own_obs = ctx.choose("B-has-its-own-observations", (False, True)) if extras else False
    dateline = ctx.choose("station-on-the-180th-meridian", (False, True)) if extras else False
    A, B, clim, locs, times = dataset(seed, with_clim, near, unknown_elev, b_own_obs, dateline)
    ov = option_values([l if l[3] == l[3] else (l[0], l[1], l[2], 1250.0) for l in locs], times, near)
    if dateline:
        ov = dict(ov)
        ov["-lonrange"] = [[170.0, 180.0], ov["-lonrange"][1], [-180.0, -170.0]]      # the end point itself; the other side of the line
    kw = {}
    chosen = {}
    for o in OPTS:
        v = ctx.choose(o, (None, 0, 1, 2))
        if v is not None:
            kw[KW[o]] = list(ov[o][v])
            chosen[o] = v
    if dateline and "lon_range" in kw:
        ctx.flag("dateline")
    obsr = ctx.choose("-obsrange", (None, 0, 1))
    allobs = sorted(set(A.fields["obs"].values()))
    if obsr == 0:
        kw["obs_range"] = [allobs[len(allobs) // 4], allobs[3 * len(allobs) // 4]]
    elif obsr == 1:
        kw["obs_range"] = [allobs[-1] + 1, allobs[-1] + 2]      # keeps nothing
    ctx.note("options", {k: v for k, v in kw.items()})
    try:
        ref = RD.RefData([A, B], clim=clim, **kw)
    except RD.RefError as e:
        ref = None
    kind, data, site, out = CD.make_data([A, B], aclim=clim, **kw)
    if kind == "crash":
        ctx.fail("api:crash:%s" % site)
        ctx.outcome("crash")
        return
    if ref is None:
        # nothing is left: an error, or no finite score anywhere
        if kind == "exit":
            ctx.outcome("rejected")
            ctx.observe(("rejected", tuple(sorted(chosen.items()))))
            ctx.flag("empty")
            return
        finite = _any_finite(data)
        ctx.require(not finite, "api:empty-selection-gives-numbers", options=kw)
        ctx.outcome("empty-nan")
        ctx.flag("empty")
        return
    if kind != "ok":
        ctx.fail("api:valid-selection-rejected", options=kw, stdout=out[-200:])
        ctx.outcome("wrongly-rejected")
        return
    ok = check_selection(ctx.fail, ref, data.times, data.leadtimes, [l.id for l in data.locations], "api")
    if not ref.T:
        ctx.require(not _any_finite(data), "api:empty-times-gives-numbers", options=kw)
        ctx.outcome("empty-times")
        ctx.flag("empty")
        ctx.observe(("empty-times", tuple(sorted(chosen.items()))))
        return
    if ok:
        sig = CD.check_requests(ctx, data, ref, [["obs", "fcst"], ["fcst"]], ["no", "time", "location", "all", "day", "timeofday", "month"], "api")
    ctx.observe((tuple(ref.T), tuple(ref.L), tuple(ref.S), obsr))
    full = len(ref.T) == 5 and len(ref.L) == 3 and len(ref.S) == 4
    ctx.outcome("T%dL%dS%d" % (len(ref.T), len(ref.L), len(ref.S)))
    if obsr == 0:
        ctx.flag("obsrange")
    if unknown_elev and "elev_range" in kw:
        ctx.flag("unknown-elevation")
    if b_own_obs and obsr == 0:
        ctx.flag("own-observations")
    ctx.nontrivial(not full)


def _any_finite(data):
    import verif.field
    import verif.axis
    for f in ([verif.field.Obs(), verif.field.Fcst()], verif.field.Fcst()):
        kind, res, site, _ = H.quiet_call(data.get_scores, f, 0, verif.axis.No(), 0)
        if kind == "ok":
            arrs = res if isinstance(res, list) else [res]
            if any(np.isfinite(np.asarray(a, dtype=float)).any() for a in arrs):
                return True
    return False


# ------------------------------------------------------------------------------------------------------
class Lattice(object):
    """state = the set of subsetting options on the command line; event = add one more"""
    # the output of a command line is a function of its option SET: reaching the same set in another order
    # must have printed the same thing
    merge_obs_locus = "lattice:option-order-changes-output"

    def __init__(self, seed, with_clim, max_values=3):
        self.seed = seed
        self.A, self.B, self.clim, self.locs, self.times = dataset(seed, with_clim)
        self.ov = option_values(self.locs, self.times)
        self.nv = max_values
        d = os.path.join(H.scratch(), "c03lat%d" % with_clim)
        os.makedirs(d, exist_ok=True)
        self.paths = []
        for ai in (self.A, self.B) + ((self.clim,) if self.clim else ()):
            p = os.path.join(d, ai.name)
            gen.text_file(ai, p, row_order=ai.positions()[::-1] if ai.name.startswith("B") else None)
            self.paths.append(p)
        self.all_events = [(o, v) for o in OPTS for v in range(self.nv)]

    def events(self, hist):
        used = set(o for o, v in hist)
        return [e for e in self.all_events if e[0] not in used]

    def build(self, hist):
        return {"hist": list(hist)}

    def argv(self, hist):
        a = list(self.paths[:2])
        if self.clim is not None:
            a += ["-c", self.paths[2]]
        for o, v in hist:
            a += [o, fmt_list(self.ov[o][v])]
        return a

    def apply(self, obj, ev):
        obj["hist"].append(ev)
        base = self.argv(obj["hist"])
        r1 = H.run_cli(base + ["--list-times", "--list-locations"])
        # the second command receives its subsetting options through --config files (the first half of the options in one
        # file, the rest in a second one): the selection is a function of the option set, however it is delivered
        hist = obj["hist"]
        half = (len(hist) + 1) // 2
        cfgs = []
        d = os.path.join(H.scratch(), "c03cfg%d" % os.getpid())
        os.makedirs(d, exist_ok=True)
        for k, part in enumerate((hist[:half], hist[half:])):
            if part:
                cp = os.path.join(d, "cfg%d.txt" % k)
                with open(cp, "w") as f:
                    f.write("\n".join("%s %s" % (o, fmt_list(self.ov[o][v])) for o, v in part) + "\n")
                cfgs += ["--config", cp]
        r2 = H.run_cli(self.argv([]) + cfgs + ["-m", "mae", "-x", "no", "-type", "csv"])
        r3 = H.run_cli(base + ["-m", "fcst", "-x", "leadtime", "-type", "csv"])
        return (r1, r2, r3)

    def observe(self, observation):
        return tuple((r.kind, r.code, r.stdout, r.site) for r in observation)

    def observe(self, observation):
        return tuple((r.kind, r.code, r.stdout, r.site) for r in observation)

    def canon(self, obj):
        return repr(sorted(obj["hist"])).encode()

    def invariant(self, obj, hist):
        return []

    def step_invariant(self, snap, obj, ev, observation, hist):
        out = []
        r1, r2, r3 = observation
        full = list(hist) + [ev]
        kw = {KW[o]: list(self.ov[o][v]) for o, v in full}
        try:
            ref = RD.RefData([self.A, self.B], clim=self.clim, **kw)
        except RD.RefError:
            ref = None
        label = " ".join("%s %s" % (o, fmt_list(self.ov[o][v])) for o, v in full)
        for r in (r1, r2, r3):
            if r.kind == "crash":
                out.append(("lattice:crash:%s" % r.site, {"options": label}))
        if ref is None:
            for r in (r1, r2, r3):
                if r.kind == "exit":
                    if r.code in (0, None) or "Error" not in r.stdout:
                        out.append(("lattice:rejection-without-message", {"options": label, "stdout": r.stdout[-200:]}))
                elif r.kind == "ok" and r is not r1:
                    if _csv_has_finite(r.stdout):
                        out.append(("lattice:empty-selection-gives-numbers", {"options": label, "stdout": r.stdout[-300:]}))
                elif r.kind == "ok" and r is r1:
                    times, locs = _parse_listing(r1.stdout)
                    if times and locs:
                        out.append(("lattice:empty-selection-lists-cases", {"options": label, "stdout": r.stdout[-300:]}))
            return out
        if r1.kind != "ok":
            out.append(("lattice:valid-selection-rejected", {"options": label, "stdout": r1.stdout[-200:]}))
            return out
        times, locs = _parse_listing(r1.stdout)
        if times != [int(t) for t in ref.T]:
            out.append(("lattice:times", {"options": label, "expected": ref.T, "actual": times}))
        if locs != [int(s) for s in ref.S]:
            out.append(("lattice:locations", {"options": label, "expected": ref.S, "actual": locs}))
        # scores
        if r2.kind == "ok":
            hdr, rows = CD.parse_csv(r2.stdout)
            for i in range(2):
                pairs = ref.request(["obs", "fcst"], i, "no", 0)
                exp = sum(abs(o - f) for o, f in pairs) / len(pairs) if pairs else float("nan")
                if not rows or not CD.close_printed(exp, rows[0][len(rows[0]) - 2 + i]):
                    out.append(("lattice:mae", {"options": label, "expected": exp, "actual": rows[0] if rows else None, "input": i}))
        else:
            out.append(("lattice:valid-selection-rejected", {"options": label, "stdout": r2.stdout[-200:]}))
        if r3.kind == "ok":
            hdr, rows = CD.parse_csv(r3.stdout)
            if ref.T:
                if [float(r[0]) for r in rows] != [float(l) for l in ref.L]:
                    out.append(("lattice:leadtimes", {"options": label, "expected": ref.L, "actual": [r[0] for r in rows]}))
                else:
                    for k, row in enumerate(rows):
                        for i in range(2):
                            vals = [f for (f,) in ref.request(["fcst"], i, "leadtime", k)]
                            exp = sum(vals) / len(vals) if vals else float("nan")
                            if not CD.close_printed(exp, row[len(row) - 2 + i]):
                                out.append(("lattice:fcst-mean", {"options": label, "expected": exp, "actual": row, "input": i}))
        return out


def _csv_has_finite(stdout):
    hdr, rows = CD.parse_csv(stdout)
    if hdr is None:
        return False
    n = 2
    for row in rows:
        for c in row[-n:]:
            try:
                if math.isfinite(float(c)):
                    return True
            except ValueError:
                pass
    return False


def _parse_listing(stdout):
    """--list-locations prints a header + one line per location, then --list-times one time per line"""
    lines = [l for l in stdout.split("\n")]
    locs, times = [], []
    mode = None
    for l in lines:
        if l.startswith("Warning"):
            continue
        s = l.split()
        if s[:4] == ["id", "lat", "lon", "elev"]:
            mode = "loc"
            continue
        if not s:
            if mode == "loc":
                mode = "time"
            continue
        if mode == "loc" and len(s) == 4:
            locs.append(int(float(s[0])))
        elif len(s) == 1:
            try:
                times.append(int(s[0]))
            except ValueError:
                pass
    return times, locs


def run(tier, only=None):
    subs = []
    if only in (None, "api"):
        t0 = time.time()
        if tier == "quick":
            st = explore.explore(h_api, mode="dev", k=3, repo_root=core.REPO)
            bound = "dev(3) over 9 options x {absent, 3 values} + -obsrange, x {no climatology, climatology}"
        else:
            st = explore.explore(h_api, mode="full", params={"extras": False}, repo_root=core.REPO, time_cap=1500)
            bound = "full product 4^9 option combinations x 3 obs ranges x {no climatology, climatology}"
        subs.append(core.Sub.from_e1("api", st, bound=bound,
                                     rule="one execution = one option combination on Data(); selected times/leadtimes/locations and every request "
                                          "compared with the reference; non-trivial = the selection is a strict subset",
                                     required_flags=("empty", "obsrange", "unknown-elevation", "own-observations", "dateline") if tier == "quick" else ("empty", "obsrange"), wall=time.time() - t0))
    if only in (None, "api-extras") and tier != "quick":
        t0 = time.time()
        st = explore.explore(h_api, mode="dev", k=4, repo_root=core.REPO, time_cap=1500)
        subs.append(core.Sub.from_e1("api-extras", st, bound="dev(4) over the 9 options, -obsrange, an unknown station elevation, per-file observations and a station on the 180th meridian",
                                     rule="as api", required_flags=("empty", "obsrange", "unknown-elevation", "own-observations", "dateline"), wall=time.time() - t0))
    if only in (None, "api-near"):
        t0 = time.time()
        kk = 2 if tier == "quick" else 3
        st = explore.explore(h_api, mode="dev", k=kk, params={"near": True}, repo_root=core.REPO, time_cap=1500)
        subs.append(core.Sub.from_e1("api-near", st, bound="dev(%d) over the same options on a dataset with hourly initialisation times and consecutive 7-digit station ids" % kk,
                                     rule="as api; the coordinates differ by less than 1e-5 relative, so any tolerance in the selection or matching shows",
                                     required_flags=("empty", "obsrange"), wall=time.time() - t0))
    for name, with_clim, depth in (("lattice", False, 3 if tier == "quick" else 4), ("lattice-clim", True, 2 if tier == "quick" else 3)):
        if only not in (None, name):
            continue
        t0 = time.time()
        m = Lattice(core.seed(), with_clim)
        res = bfs.bfs(m, max_depth=depth, repo_root=core.REPO, time_cap=(600 if tier == "quick" else 1800), validate_merges=(100 if tier == "quick" else 2000))
        subs.append(core.Sub.from_e2(name, res, bound="option sets of size <= %d over 9 options x 3 values, climatology=%s" % (depth, with_clim),
                                     rule="state = set of (option, value) on the command line, transition = add one option (executed in path order "
                                          "through the driver: --list-times/--list-locations, mae csv, fcst csv); merged orders validated by bisimulation",
                                     wall=time.time() - t0))
    return subs


def replay(rec):
    if rec["subcheck"] in ("api", "api-near", "api-extras"):
        params = {"near": rec["subcheck"] == "api-near"}
        if rec["subcheck"] == "api" and rec.get("tier") == "thorough":
            params["extras"] = False
        ctx, _ = explore.replay(h_api, rec["choices"], None, params=params, repo_root=core.REPO)
        return [v.locus for v in ctx.violations if v.locus == rec["signature"][1]]
    with_clim = rec["subcheck"] == "lattice-clim"
    m = Lattice(rec.get("seed", core.seed()), with_clim)
    hist = [tuple(e) for e in rec["history"]]
    obj = m.build(tuple(hist[:-1]))
    o = m.apply(obj, hist[-1])
    vio = m.step_invariant(None, obj, hist[-1], o, tuple(hist[:-1]))
    return [l for l, d in vio if l == rec["signature"][1]]
