"""C14 - anomaly scores use the climatology at the same coordinates.

E1, dev(k) over: climatology coverage (which times / locations it contains), storage order, missing cells in inputs and
climatology, a zero in the climatology (for -C), a climatology value equal to the observation, an -obsrange (which must select
on the raw observation, before the anomaly is taken); full over {-c, -C} x axes x
N in {1,2} inputs.  Through verif.data.Data (in-memory) and through the CLI (text files).
Oracles: (i) reference anomaly pipeline (value -/ climatology forecast at the same time, lead time, location; missing or
non-finite -> dropped for every input; only obs and fcst altered); (ii) metamorphic: shift-invariant scores under -c equal
the first column(s) when the climatology is given as an additional input; (iii) names / legend / columns / num_inputs never
include the climatology, also when the same Python list of inputs is reused for a second dataset.
"""
import math
import os
import time

import numpy as np

from mc import core, explore, gen
from mc import harness as H
from mc.ref import dataset as RD
from mc.ref import calendar as cal
from mc.ref import scores as RS
from checks import common_data as CD

PID = "C14"
LEVEL = "exploration"
TECHNIQUE = "bounded exhaustive enumeration (E1, deviation-bounded) of input/climatology coverage, order and missingness under -c and -C on the real Data object and CLI, against the reference anomaly pipeline and a metamorphic 'climatology as extra input' oracle"
ASSUMPTIONS = ["for scores that use observations only, datasets with missing input forecasts are not judged (whether such cases are dropped is not documented)"]

DAY = 86400
T0 = 1330387200
SUBS3 = [(0, 1, 2), (0, 1), (1, 2), (0, 2), (2, 1, 0), (1, 0, 2)]
INVARIANT = ["mae", "rmse", "bias", "stderror"]      # functions of (fcst - obs) only
OTHER = ["corr"]
SENSITIVE = ["obs", "fcst", "mbias", "ets"]


def build(ctx, n, seed):
    locs = gen.std_locs(3, seed)
    times = [T0, T0 + DAY, T0 + 2 * DAY]
    leads = [0.0, 12.0]
    vals = gen.unique_values(seed, 300)
    obsv = {}
    k = 0
    for t in times:
        for l in leads:
            for s in locs:
                obsv[(t, l, s[0])] = vals[(k * 7) % 53]
                k += 1
    inputs = []
    for i in range(n):
        tt = times if i == 0 else times[::-1]
        ss = locs if i == 0 else [locs[1], locs[2], locs[0]]
        ai = gen.AInput(["A.txt", "B.txt"][i], tt, leads, ss)
        ai.fields["obs"] = {}
        ai.fields["fcst"] = {}
        ai.fields["pit"] = {}
        for m, pos in enumerate(ai.positions()):
            key = (ai.times[pos[0]], ai.leads[pos[1]], ai.locs[pos[2]][0])
            ai.fields["obs"][pos] = obsv[key]
            ai.fields["fcst"][pos] = vals[(60 + i * 40 + (m * 5) % 37)]
            ai.fields["pit"][pos] = ((m * 3 + i) % 9) / 8.0
            ai.fields["alt"] = ai.fields.get("alt", {})
            ai.fields["alt"][pos] = vals[(200 + i * 30 + (m * 7) % 29)]
        inputs.append(ai)
    tsub = ctx.choose("clim-times", SUBS3)
    ssub = ctx.choose("clim-locs", SUBS3)
    ktimes = [times[j] for j in tsub]
    if ctx.choose_bool("clim-has-runs-3h-before"):
        # the climatology file also holds a run three hours before each of its runs, stored in front of it: close in relative terms
        # (1e-5 of a unix time is 3.7 h), but a different coordinate
        ktimes = [x for t in ktimes for x in (t - 3 * 3600, t)]
    K = gen.AInput("K.txt", ktimes, leads, [locs[j] for j in ssub])
    K.fields["fcst"] = {}
    K.fields["pit"] = {}
    K.fields["alt"] = {}
    for m, pos in enumerate(K.positions()):
        K.fields["fcst"][pos] = vals[(150 + (m * 11) % 41)]
        K.fields["pit"][pos] = 0.5
        K.fields["alt"][pos] = vals[(120 + (m * 13) % 37)]
    # deviations: missing cells
    fcst_missing = False
    for ai, fields in [(inputs[0], ("obs", "fcst"))] + ([(inputs[1], ("fcst",))] if n > 1 else []) + [(K, ("fcst",))]:
        for f in fields:
            for pos in ai.positions()[:4]:
                if ctx.choose_bool("miss:%s:%s:%r" % (ai.name, f, pos)):
                    del ai.fields[f][pos]
                    if f == "fcst" and ai is not K:
                        fcst_missing = True
    special = ctx.choose("clim-special", ("none", "zero", "equal-obs"))
    pos = K.positions()[-1]
    if special == "zero" and pos in K.fields["fcst"]:
        K.fields["fcst"][pos] = 0.0
    elif special == "equal-obs" and pos in K.fields["fcst"]:
        K.fields["fcst"][pos] = obsv.get((K.times[pos[0]], K.leads[pos[1]], K.locs[pos[2]][0]), 0.0)
    # deviation: -obsrange, which selects on the raw observation (not on the anomaly)
    orng = None
    if ctx.choose("obsrange", ("none", "inner")) == "inner":
        ov = sorted(set(obsv.values()))
        orng = [ov[3], ov[-4]]
    # deviation: -fcst alt (another field plays the forecast; the anomaly is taken of whatever plays obs and fcst)
    ffield = "alt" if ctx.choose("-fcst", ("fcst", "alt")) == "alt" else None
    # deviation: -d (every day of the files, or the first and the last): the selection works on the common times, whatever order
    # the climatology stores its runs in
    dsel = ctx.choose("-d", ("none", "all-days", "first-and-last"))
    dates = None if dsel == "none" else [cal.unixtime_to_date(t) for t in (times if dsel == "all-days" else (times[0], times[2]))]
    return inputs, K, fcst_missing, orng, ffield, dates


def score_api(data, metric, i, ax, thr):
    import verif.metric
    import verif.axis
    import verif.interval
    m = verif.metric.get(metric)
    iv = verif.interval.Interval(thr, np.inf, False, False) if metric == "ets" else None
    return H.quiet_call(m.compute, data, i, verif.axis.get(ax), iv)


def h_api(ctx):
    import verif.data
    seed = core.seed()
    n = ctx.choose("inputs", (1, 2), free=True)
    ctype = ctx.choose("type", ("subtract", "divide"), free=True)
    inputs, K, fcst_missing, orng, ffield, dates = build(ctx, n, seed)
    try:
        ref = RD.RefData(inputs, clim=K, clim_type=ctype, obs_range=orng, dates=dates, **({"fcst_field": ffield} if ffield else {}))
    except RD.RefError:
        ref = None
    objs = CD.build_inputs(inputs + [K])
    lst = objs[:-1]
    n_before = len(lst)
    kw = {"obs_range": orng} if orng is not None else {}
    if dates is not None:
        kw["dates"] = dates
        ctx.flag("dates")
    if ffield:
        import verif.field
        kw["fcst_field"] = verif.field.Other(ffield)
        ctx.flag("fcst-field")
    if orng is not None:
        ctx.flag("obsrange")
    kind, data, site, out = H.quiet_call(verif.data.Data, lst, clim=objs[-1], clim_type=ctype, **kw)
    if ref is None:
        ctx.require(kind == "exit", "empty-intersection-not-rejected", kind=kind)
        ctx.outcome("rejected")
        return
    if kind != "ok":
        ctx.fail("data-%s:%s" % (kind, site), stdout=out[-200:])
        return
    # (iii) the climatology is not an input
    ctx.require(len(lst) == n_before, "clim:callers-input-list-modified", before=n_before, after=len(lst))
    ctx.require(data.num_inputs == n, "clim:counted-as-input", expected=n, actual=data.num_inputs)
    for getter in ("get_names", "get_full_names", "get_short_names", "get_legend"):
        names = getattr(data, getter)()
        ctx.require(len(names) == n and not any("K" in str(x) for x in names), "clim:appears-in-%s" % getter, actual=[str(x) for x in names])
    kind2, data2, site2, _ = H.quiet_call(verif.data.Data, lst, clim=objs[-1], clim_type=ctype, **kw)
    if kind2 == "ok":
        ctx.require(data2.num_inputs == n and len(data2.get_names()) == n, "clim:counted-as-input-when-list-is-reused", expected=n, actual=data2.num_inputs)
    # (i) requests
    axes = ["no", "time", "leadtime", "location", "all"]
    roles = [["obs", "fcst"], ["fcst"], ["pit"], ["fcst", "pit"]] + ([["obs"]] if not fcst_missing else [])
    sig = CD.check_requests(ctx, data, ref, roles, axes, ctype)
    # scores against the reference definitions
    thr = 0.0 if ctype == "subtract" else 1.0
    for metric in INVARIANT + OTHER + SENSITIVE:
        if metric == "obs" and fcst_missing:
            continue
        for ax in ("leadtime", "location", "no"):
            for i in range(n):
                kindm, val, sitem, _ = score_api(data, metric, i, ax, thr)
                if kindm != "ok":
                    ctx.fail("score:%s:%s:%s" % (metric, kindm, sitem))
                    continue
                val = np.asarray(val, dtype=float).reshape(-1)
                for k in range(len(ref.axis_values(ax))):
                    iv = (thr, float("inf"), False, False) if metric == "ets" else None
                    e = RS.score(ref, metric, i, ax, k, iv=iv)
                    g = float(val[k])
                    ok = (math.isnan(g) or math.isinf(g)) if (e is None or math.isinf(e) or math.isnan(e)) else (not math.isnan(g) and abs(e - g) <= 1e-7 * max(1, abs(e)))
                    if not ok:
                        ctx.fail("score:%s:%s" % (metric, ctype), axis=ax, index=k, input=i, expected=e, actual=g)
    # (ii) metamorphic: climatology as an additional input, shift-invariant scores
    if ctype == "subtract":
        objs2 = CD.build_inputs(inputs + [K])
        # the extra input needs an obs field? no: it borrows the observations of a file that has them
        kind3, data3, site3, _ = H.quiet_call(verif.data.Data, objs2, **kw)
        if kind3 == "ok":
            ctx.flag("metamorphic")
            for metric in INVARIANT:
                for ax in ("leadtime", "no"):
                    for i in range(n):
                        a = score_api(data, metric, i, ax, thr)
                        b = score_api(data3, metric, i, ax, thr)
                        if a[0] == "ok" and b[0] == "ok":
                            av, bv = np.asarray(a[1], dtype=float), np.asarray(b[1], dtype=float)
                            same = av.shape == bv.shape and np.allclose(av, bv, rtol=1e-9, atol=1e-9, equal_nan=True)
                            ctx.require(same, "metamorphic:%s" % metric, axis=ax, input=i, with_c=av.tolist(), as_input=bv.tolist())
    ctx.observe((n, ctype, sig))
    nvalid = len(ref.request(["obs", "fcst"], 0, "no", 0))
    ctx.outcome("%s,valid=%d" % (ctype, min(nvalid, 3)))
    ctx.nontrivial(nvalid > 0)


def h_cli(ctx):
    seed = core.seed()
    n = ctx.choose("inputs", (1, 2), free=True)
    flag = ctx.choose("flag", ("-c", "-C"), free=True)
    ctype = "subtract" if flag == "-c" else "divide"
    inputs, K, fcst_missing, orng, ffield, dates = build(ctx, n, seed)
    d = os.path.join(H.scratch(), "c14cli")
    os.makedirs(d, exist_ok=True)
    paths = [gen.text_file(ai, os.path.join(d, ai.name)) for ai in inputs]
    kp = gen.text_file(K, os.path.join(d, K.name), row_order=K.positions()[::-1])
    try:
        ref = RD.RefData(inputs, clim=K, clim_type=ctype, obs_range=orng, dates=dates, **({"fcst_field": ffield} if ffield else {}))
    except RD.RefError:
        ref = None
    extra = ["-obsrange", "%r,%r" % (orng[0], orng[1])] if orng is not None else []
    if dates is not None:
        extra += ["-d", ",".join(str(int(x)) for x in dates)]
    if ffield:
        extra += ["-fcst", ffield]
    # deviation: the other climatology flag, with another file, earlier on the command line - the last one given is the one used
    pre = []
    if ctx.choose_bool("other-climatology-flag-first"):
        K2 = K.copy()
        K2.name = "K2.txt"
        for pos in K2.fields["fcst"]:
            K2.fields["fcst"][pos] = K2.fields["fcst"][pos] * 2 + 1
        k2p = gen.text_file(K2, os.path.join(d, K2.name))
        pre = ["-C" if flag == "-c" else "-c", k2p]
        ctx.flag("two-climatology-flags")
    sig = []
    for metric in ("mae", "bias", "fcst"):
        for ax in ("leadtime", "location", "time"):
            r = H.run_cli(paths + pre + [flag, kp, "-m", metric, "-x", ax, "-type", "csv"] + extra)
            if ref is None:
                ctx.require(r.kind == "exit" and r.code not in (0, None), "cli:empty-intersection-not-rejected", kind=r.kind)
                continue
            if r.kind != "ok":
                ctx.fail("cli:%s:%s" % (r.kind, r.site or ""), stdout=r.stdout[-200:])
                continue
            hdr, rows = CD.parse_csv(r.stdout)
            lead = 4 if ax == "location" else 1
            ctx.require(hdr[lead:] == [ai.name for ai in inputs], "cli:columns", expected=[ai.name for ai in inputs], actual=hdr)
            nsl = len(ref.axis_values(ax))
            if not ctx.require(len(rows) == nsl, "cli:row-count", expected=nsl, actual=len(rows)):
                continue
            for k in range(nsl):
                for i in range(n):
                    e = RS.score(ref, metric, i, ax, k)
                    cell = rows[k][lead + i]
                    ok = CD.close_printed(e, cell) if e is not None else cell == "nan"
                    if not ok:
                        ctx.fail("cli:%s:%s" % (metric, flag), axis=ax, row=k, input=i, expected=e, actual=cell)
            sig.append(tuple(tuple(r) for r in rows))
    ctx.observe((n, flag, tuple(sig)))
    ctx.outcome(flag if ref is not None else "rejected")
    ctx.nontrivial(ref is not None)


def plan(tier):
    q = tier == "quick"
    return [("api", h_api, "dev", 2 if q else 3), ("cli", h_cli, "dev", 1 if q else 2)]


def run(tier, only=None):
    subs = []
    for name, h, mode, k in plan(tier):
        if only and only != name:
            continue
        t0 = time.time()
        st = explore.explore(h, mode=mode, k=k, repo_root=core.REPO, time_cap=(300 if tier == "quick" else 3000))
        subs.append(core.Sub.from_e1(name, st, bound="dev(%d) over climatology coverage/order, missing cells, zero / equal-to-obs climatology value, -obsrange, -fcst <other field>, -d, climatology runs three hours before each run, the other climatology flag first (CLI); full over {-c,-C} x {1,2} inputs" % k,
                                     rule="one execution = one dataset + climatology; requests, 9 metrics x 3 axes, metamorphic pair and naming checks; non-trivial = at least one valid case",
                                     required_flags=("metamorphic", "obsrange", "fcst-field", "dates") if name == "api" else ("two-climatology-flags",), wall=time.time() - t0))
    return subs


def replay(rec):
    for name, h, mode, k in plan("thorough"):
        if name == rec["subcheck"]:
            ctx, _ = explore.replay(h, rec["choices"], None, repo_root=core.REPO)
            return [v.locus for v in ctx.violations if v.locus == rec["signature"][1]]
    return []
