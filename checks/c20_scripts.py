"""C20 - helper scripts transform files as documented.

 accumulate   -w in {absent, 1, 2, 3, 4, 5 (> n)} x -x in {leadtime, time} x -i on/off (full) x dev(2) missing cells x {text, NetCDF} input
 ens2prob     thresholds: every ordered selection of <= 3 of {0, 1, 2, 5}; quantile levels: ordered selections of {0, 1/4, 1/2, 3/4, 1}; -p;
              ensembles of 1..3 members with missing members / observations
 expandverif  -i subsets of {0, 6, 12}, -lt subsets of {0, 6, 12, 24, 30}, inputs whose valid times collide
 window       -b in {default, below=, below, within types (refused)} x -r in {0, 1, 2.5} x every value pattern over {0, 1/2, 1, 2}^4 along an
              irregular lead-time axis, dev(k) missing cells; lengths compared with both readings of "stays below the threshold"
(text2nc is exercised under C10.)  Scripts run in-process (runpy, argv injected); outputs are read back with netCDF4.
"""
import itertools
import math
import os
import runpy
import sys
import time

import numpy as np

from mc import core, explore, gen
from mc import harness as H
from checks import c10_netcdf as T10

PID = "C20"
LEVEL = "exploration"
TECHNIQUE = "bounded exhaustive enumeration (E1) of script options x small input files (text and NetCDF, missing cells) with the scripts run in-process, outputs read back with netCDF4 and compared with plain-Python reference transformations"
ASSUMPTIONS = ["a field a script does not write at all is recorded as dropped, not raised (\"preserve the fields they do not transform\" is read as \"do not alter\")",
               "ens2prob cumulative probability: fraction of non-missing members strictly below or at-or-below the threshold are both accepted"]

DAY = 86400
T0 = 1330387200


def run_script(name, argv):
    script = os.path.join(core.REPO, "scripts", name)
    old = sys.argv

    def go():
        sys.argv = [name] + [str(a) for a in argv]
        try:
            runpy.run_path(script, run_name="__main__")
        finally:
            sys.argv = old
    return H.quiet_call(go)


def read_nc(path):
    import netCDF4
    ds = netCDF4.Dataset(path)
    out = {}
    for k, v in ds.variables.items():
        a = v[:]
        a = np.ma.filled(a.astype(float), np.nan) if isinstance(a, np.ma.MaskedArray) else np.asarray(a, dtype=float)
        a = np.where((a > 1e30) | (a == -999), np.nan, a)
        out[k] = a
    out["__attrs__"] = {a: getattr(ds, a) for a in ds.ncattrs()}
    ds.close()
    return out


def base_input(seed, nmem=0, nt=3, nl=4, nloc=2):
    locs = gen.std_locs(2, seed) if nloc == 2 else [(100 + 3 * i, 40.0 + i, -120.0 + i, 100.0 * i) for i in range(nloc)]
    times = [T0 + i * DAY for i in range(nt)]
    leads = [0.0, 6.0, 12.0, 18.0][:nl] if nl <= 4 else [float(i) for i in range(nl)]
    ai = gen.AInput("in", times, leads, locs, variable="Precip", units="mm")
    vals = gen.unique_values(seed, 200)
    k = 0
    names = ["obs", "fcst"] + ["e%d" % m for m in range(nmem)]
    for fi, f in enumerate(names):
        ai.fields[f] = {}
        for pos in ai.positions():
            ai.fields[f][pos] = vals[(k * 7 + fi * 29) % 97]
            k += 1
    return ai


def write_input(ai, via, sub):
    d = os.path.join(H.scratch(), sub)
    os.makedirs(d, exist_ok=True)
    if via == "text":
        return gen.text_file(ai, os.path.join(d, "in%d.txt" % os.getpid()))
    return gen.netcdf_file(ai, os.path.join(d, "in%d.nc" % os.getpid()))


def check_meta(ctx, out, ai, tag, times=None, leads=None):
    times = ai.times if times is None else times
    leads = ai.leads if leads is None else leads
    ctx.require([float(x) for x in out["time"]] == [float(x) for x in times], "%s:times-not-preserved" % tag, expected=times, actual=out["time"].tolist())
    ctx.require([float(x) for x in out["leadtime"]] == [float(x) for x in leads], "%s:leadtimes-not-preserved" % tag, expected=leads, actual=out["leadtime"].tolist())
    ids = [float(x) for x in out["location"]]
    ctx.require(sorted(ids) == sorted(float(l[0]) for l in ai.locs), "%s:locations-not-preserved" % tag, actual=ids)
    for si, i in enumerate(ids):
        l = [x for x in ai.locs if float(x[0]) == i]
        if l:
            got = (float(out["lat"][si]), float(out["lon"][si]), float(out["altitude"][si]))
            ctx.require(all(abs(a - b) < 1e-4 for a, b in zip(got, l[0][1:])), "%s:location-metadata-not-preserved" % tag, expected=l[0], actual=got)
    return ids


def close32(e, g):
    if e is None:
        return math.isnan(g)
    if math.isnan(g):
        return False
    return abs(e - g) <= 2e-6 * max(1.0, abs(e))


# ---- accumulate ------------------------------------------------------------------------------------------------
def h_accumulate(ctx):
    seed = core.seed()
    via = ctx.choose("input", ("text", "nc"), free=True)
    w = ctx.choose("-w", (None, 1, 2, 3, 4, 5), free=True)
    axis = ctx.choose("-x", ("leadtime", "time"), free=True)
    ign = ctx.choose_bool("-i", free=True)
    size = ctx.choose("file-size", ("small", "8x48x6"), free=True) if ctx.params.get("sizes") else "small"
    if size == "small":
        ai = base_input(seed)
        cells = ai.positions()[::2]
    else:
        # a file of ordinary size (the summation must not depend on how large the arrays are)
        via = "nc"
        ai = base_input(seed, nt=8, nl=48, nloc=6)
        cells = [(2, 5, 1), (7, 47, 5), (0, 0, 0), (4, 20, 3)]
        ctx.flag("ordinary-size")
    for f in ("obs", "fcst"):
        for pos in cells:
            if ctx.choose_bool("miss:%s:%r" % (f, pos)):
                del ai.fields[f][pos]
    src = write_input(ai, via, "c20acc")
    dst = os.path.join(H.scratch(), "c20acc", "out%d.nc" % os.getpid())
    if os.path.exists(dst):
        os.remove(dst)
    argv = [src, dst, "-x", axis] + (["-w", w] if w is not None else []) + (["-i"] if ign else [])
    ctx.note("argv", [os.path.basename(str(a)) for a in argv])
    kind, _, site, out_txt = run_script("accumulate.py", argv)
    n = len(ai.leads) if axis == "leadtime" else len(ai.times)
    if w is not None and w > n:
        ctx.require(kind == "exit", "accumulate:window-longer-than-axis-not-rejected", kind=kind, site=site)
        ctx.outcome("rejected")
        ctx.observe(("rejected", w, axis))
        return
    if kind != "ok":
        ctx.fail("accumulate:%s:%s" % (kind, site or "rejected"), stdout=out_txt[-200:])
        return
    out = read_nc(dst)
    ids = check_meta(ctx, out, ai, "accumulate")
    for f in ("obs", "fcst"):
        arr = out[f]
        for ti in range(len(ai.times)):
            for li in range(len(ai.leads)):
                for si, sid in enumerate(ids):
                    sj = [j for j, l in enumerate(ai.locs) if float(l[0]) == sid][0]
                    k = li if axis == "leadtime" else ti
                    lo = 0 if w is None else k - w + 1
                    if lo < 0:
                        e = None            # incomplete window
                    else:
                        series = []
                        for j in range(lo, k + 1):
                            pos = (ti, j, sj) if axis == "leadtime" else (j, li, sj)
                            series.append(ai.get(f, pos))
                        if ign:
                            e = float(sum(v for v in series if v is not None))
                        else:
                            e = None if any(v is None for v in series) else float(sum(series))
                    g = float(arr[ti, li, si])
                    if w == 1 and ign and lo >= 0 and series[0] is None and (math.isnan(g) or g == 0):
                        continue        # a window of one step over a missing value: missing and 0 are both defensible with -i
                    if not close32(e, g):
                        which = "incomplete-window" if lo < 0 else ("missing-in-window" if any(v is None for v in series) else "sum")
                        ctx.fail("accumulate:%s:%s" % (which, "cumulative" if w is None else "window"), field=f, time=ti, lead=li, loc=sid, expected=e, actual=g,
                                 argv=ctx.notes["argv"])
                        break
    ctx.observe((via, w, axis, ign, tuple(np.nan_to_num(out["obs"], nan=-7).reshape(-1).round(4).tolist())))
    ctx.outcome("w=%s" % w)
    ctx.nontrivial(w is None or w > 1)


# ---- ens2prob ------------------------------------------------------------------------------------------------------
def ordered_selections(vals, kmax):
    out = [()]
    for k in range(1, kmax + 1):
        out += list(itertools.permutations(vals, k))
    return out


def h_ens2prob(ctx):
    seed = core.seed()
    via = ctx.choose("input", ("text", "nc"), free=True)
    nmem = ctx.choose("members", (3, 2, 1), free=True)
    thr = ctx.choose("-r", ctx.params["thr"], free=True)
    qs = ctx.choose("-q", ctx.params["qs"], free=True)
    pit = ctx.choose_bool("-p", free=True)
    ai = base_input(seed, nmem=nmem, nl=2)
    # members around the thresholds: values in {0,1,2,5}-ish so that equality with a threshold occurs
    # ... plus decimals that are not representable in single precision (0.7 and 2.3 round downward, 4.6 upward)
    menu = [0.0, 1.0, 2.0, 5.0, 0.5, 3.0, 0.7, 2.3, 4.6]
    for m in range(nmem):
        for n_, pos in enumerate(ai.positions()):
            ai.fields["e%d" % m][pos] = menu[(n_ * 5 + m * 3) % len(menu)]
    for n_, pos in enumerate(ai.positions()):
        ai.fields["obs"][pos] = menu[(n_ * 7 + 1) % len(menu)]
        if n_ % 3 == 0:
            # an observation exactly equal to a member (a tie is not "below")
            ai.fields["obs"][pos] = ai.fields["e%d" % (n_ % nmem)][pos]
            if ai.fields["obs"][pos] in (0.7, 2.3, 4.6):
                ctx.flag("decimal-tie")
    dev_cells = [("obs", ai.positions()[1]), ("e0", ai.positions()[2]), ("fcst", ai.positions()[3])]
    for (f, pos) in dev_cells:
        if f in ai.fields and ctx.choose_bool("miss:%s:%r" % (f, pos)):
            del ai.fields[f][pos]
    src = write_input(ai, via, "c20e2p")
    dst = os.path.join(H.scratch(), "c20e2p", "out%d.nc" % os.getpid())
    if os.path.exists(dst):
        os.remove(dst)
    argv = [src, dst]
    if thr:
        argv += ["-r", ",".join(gen.fmt_num(t) for t in thr)]
    if qs:
        argv += ["-q", ",".join(gen.fmt_num(q) for q in qs)]
    if pit:
        argv += ["-p"]
    ctx.note("argv", [os.path.basename(str(a)) for a in argv])
    kind, _, site, out_txt = run_script("ens2prob.py", argv)
    if kind != "ok":
        ctx.fail("ens2prob:%s:%s" % (kind, site or "rejected"), stdout=out_txt[-200:], members=nmem)
        return
    out = read_nc(dst)
    ids = check_meta(ctx, out, ai, "ens2prob")
    smap = {si: [j for j, l in enumerate(ai.locs) if float(l[0]) == sid][0] for si, sid in enumerate(ids)}
    for f in ("obs", "fcst"):
        if f in out:
            for pos in ai.positions():
                g = float(out[f][pos[0], pos[1], [k for k, v in smap.items() if v == pos[2]][0]])
                ctx.require(close32(ai.get(f, pos), g), "ens2prob:untransformed-field-altered:%s" % f, position=list(pos), expected=ai.get(f, pos), actual=g)
    for ti in range(len(ai.times)):
        for li in range(len(ai.leads)):
            for si in smap:
                pos = (ti, li, smap[si])
                mem = [ai.get("e%d" % m, pos) for m in range(nmem)]
                valid = [v for v in mem if v is not None]
                if thr:
                    file_thr = [float(x) for x in out["threshold"]]
                    ctx.require(sorted(file_thr) == sorted(float(t) for t in thr), "ens2prob:thresholds", expected=list(thr), actual=file_thr)
                    col = {}
                    for j, t in enumerate(file_thr):
                        col[t] = float(out["cdf"][ti, li, si, j])
                    prev = None
                    for t in sorted(col):
                        g = col[t]
                        if valid:
                            lo = sum(1 for v in valid if v < t) / float(len(valid))
                            hi = sum(1 for v in valid if v <= t) / float(len(valid))
                            ctx.require(not math.isnan(g) and -1e-6 <= g <= 1 + 1e-6, "ens2prob:cdf-outside-0-1", value=g)
                            ctx.require(close32(lo, g) or close32(hi, g), "ens2prob:cdf-value", threshold=t, members=mem, expected=[lo, hi], actual=g, argv=ctx.notes["argv"])
                            if prev is not None and not math.isnan(g) and not math.isnan(prev):
                                ctx.require(g >= prev - 1e-6, "ens2prob:cdf-decreases-with-threshold", thresholds=sorted(col), values=[col[x] for x in sorted(col)],
                                            argv=ctx.notes["argv"])
                            prev = g
                        else:
                            ctx.require(math.isnan(g), "ens2prob:cdf-of-missing-ensemble", value=g)
                if qs and len(valid) == nmem:
                    file_q = [float(x) for x in out["quantile"]]
                    ctx.require(sorted(file_q) == sorted(float(q) for q in qs), "ens2prob:quantile-levels", expected=list(qs), actual=file_q)
                    col = {q: float(out["x"][ti, li, si, j]) for j, q in enumerate(file_q)}
                    prev = None
                    for q in sorted(col):
                        g = col[q]
                        ctx.require(not math.isnan(g) and min(valid) - 1e-6 <= g <= max(valid) + 1e-6, "ens2prob:quantile-outside-ensemble-range" + ("" if nmem == 1 else ":multi-member"), level=q, members=mem,
                                    actual=g, argv=ctx.notes["argv"])
                        ctx.require(any(abs(g - v) < 1e-6 for v in valid) or True, "ens2prob:quantile-not-a-member")
                        if prev is not None:
                            ctx.require(g >= prev - 1e-6, "ens2prob:quantile-decreases-with-level" + ("" if nmem == 1 else ":multi-member"), levels=sorted(col), values=[col[x] for x in sorted(col)],
                                        argv=ctx.notes["argv"])
                        prev = g
                    if 0.0 in col:
                        ctx.require(abs(col[0.0] - min(valid)) < 1e-6, "ens2prob:quantile-0-is-not-the-minimum", members=mem, actual=col[0.0])
                    if 1.0 in col:
                        ctx.require(abs(col[1.0] - max(valid)) < 1e-6, "ens2prob:quantile-1-is-not-the-maximum", members=mem, actual=col[1.0])
                if pit:
                    g = float(out["pit"][ti, li, si])
                    o = ai.get("obs", pos)
                    if o is None:
                        ctx.flag("pit-missing-obs")
                        ctx.require(math.isnan(g), "ens2prob:pit-not-missing-where-observation-is-missing", actual=g, argv=ctx.notes["argv"])
                    elif len(valid) == nmem:
                        e = sum(1 for v in valid if v < o) / float(nmem)
                        ctx.require(close32(e, g), "ens2prob:pit-value", members=mem, obs=o, expected=e, actual=g)
    ctx.observe((via, nmem, thr, qs, pit))
    ctx.outcome("m=%d" % nmem)
    ctx.nontrivial(bool(thr or qs or pit))


# ---- expandverif ---------------------------------------------------------------------------------------------------
def subsets(vals):
    out = []
    for k in range(1, len(vals) + 1):
        out += list(itertools.combinations(vals, k))
    return out


def h_expand(ctx):
    seed = core.seed()
    via = ctx.choose("input", ("text", "nc"), free=True)
    inits = ctx.choose("-i", subsets([0, 6, 12]) + [(12, 0), (6, 0, 12)], free=True)
    lts = ctx.choose("-lt", subsets([0, 6, 12, 24, 30]) + [(24, 0, 12, 6), (30, 12, 0), (12, 6), (24, 12, 6, 0), (6, 30, 0)], free=True)
    tod = ctx.choose("input-init-hour", (0, 6), free=True)
    locs = gen.std_locs(2, seed)
    times = [T0 + tod * 3600 + i * DAY for i in range(3)]
    order = ctx.choose("input-time-order", ("ascending", "descending", "rotated"), free=True)
    if order == "descending":
        times = times[::-1]           # a NetCDF file keeps this storage order (the text reader sorts)
    elif order == "rotated":
        times = [times[2], times[0], times[1]]
    leads = [0.0, 6.0, 18.0, 24.0]
    ai = gen.AInput("in", times, leads, locs, variable="T", units="K")
    # observations are a function of the VALID time (inputs whose valid times collide agree)
    ai.fields["obs"] = {}
    ai.fields["fcst"] = {}
    for pos in ai.positions():
        valid = ai.times[pos[0]] + int(ai.leads[pos[1]] * 3600)
        ai.fields["obs"][pos] = ((valid // 3600) % 37) * 0.25 + pos[2] * 16
        ai.fields["fcst"][pos] = 1.0
    if ctx.choose_bool("missing-obs"):
        del ai.fields["obs"][(0, 1, 0)]
    src = write_input(ai, via, "c20exp")
    dst = os.path.join(H.scratch(), "c20exp", "out%d.nc" % os.getpid())
    if os.path.exists(dst):
        os.remove(dst)
    argv = [src, "-o", dst, "-i", ",".join(str(i) for i in inits), "-lt", ",".join(str(l) for l in lts)]
    ctx.note("argv", [os.path.basename(str(a)) for a in argv])
    kind, _, site, out_txt = run_script("expandverif.py", argv)
    if kind != "ok":
        ctx.fail("expandverif:%s:%s" % (kind, site or "rejected"), stdout=out_txt[-200:])
        return
    out = read_nc(dst)
    days = sorted(set(int(t // DAY) * DAY for t in ai.times))
    exp_times = sorted(d + i * 3600 for i in inits for d in days)
    ctx.require(sorted(float(x) for x in out["time"]) == [float(x) for x in exp_times], "expandverif:times", expected=exp_times, actual=out["time"].tolist())
    ctx.require([float(x) for x in out["leadtime"]] == [float(x) for x in lts], "expandverif:leadtimes", expected=list(lts), actual=out["leadtime"].tolist())
    ids = [float(x) for x in out["location"]]
    ctx.require(sorted(ids) == sorted(float(l[0]) for l in ai.locs), "expandverif:locations", actual=ids)
    byvalid = {}
    for pos in ai.positions():
        v = ai.get("obs", pos)
        valid = ai.times[pos[0]] + int(ai.leads[pos[1]] * 3600)
        byvalid.setdefault((valid, pos[2]), []).append(v)
    nplaced = 0
    for ti, t in enumerate(out["time"]):
        for li, lt in enumerate(out["leadtime"]):
            for si, sid in enumerate(ids):
                sj = [j for j, l in enumerate(ai.locs) if float(l[0]) == sid][0]
                cands = byvalid.get((int(t) + int(lt * 3600), sj))
                g = float(out["obs"][ti, li, si])
                if cands is None:
                    ctx.require(math.isnan(g), "expandverif:observation-placed-where-no-valid-time-matches", time=float(t), lead=float(lt), actual=g)
                else:
                    ok = any(close32(c, g) for c in cands)
                    ctx.require(ok, "expandverif:wrong-observation", time=float(t), lead=float(lt), expected=cands, actual=g, argv=ctx.notes["argv"])
                    nplaced += 1
    ctx.observe((via, inits, lts, tod, nplaced, tuple(times)))
    ctx.outcome("placed" if nplaced else "none")
    ctx.nontrivial(nplaced > 0)


# ---- window ------------------------------------------------------------------------------------------------------
WIN_LEADS = [0.0, 3.0, 6.0, 12.0]          # irregular spacing: the window is a length of TIME, not a number of steps
WIN_VALUES = [0.0, 0.5, 1.0, 2.0]


def _win_expected(series, leads, thr, closed):
    """The two documented readings of "the length of time that the parameter stays below the threshold", starting at each
    lead time: the run ends at the first lead time whose VALUE (reading 1) / whose TOTAL since the start (reading 2) is no
    longer below the threshold, or at the last lead time of the file.  None = missing start, "?" = a missing value
    inside the run (not specified)."""
    n = len(series)
    out = []
    for o in range(n):
        if series[o] is None:
            out.append(None)
            continue
        res = []
        for cumulative in (False, True):
            tot, j, unknown = 0.0, o, False
            while j < n:
                if series[j] is None:
                    unknown = True
                    break
                tot += series[j]
                x = tot if cumulative else series[j]
                if not (x <= thr if closed else x < thr):
                    break
                j += 1
            res.append("?" if unknown else leads[min(j, n - 1)] - leads[o])
        out.append(res)
    return out


def h_window(ctx):
    seed = core.seed()
    via = ctx.choose("input", ("text", "nc"), free=True)
    btype = ctx.choose("-b", (None, "below=", "below", "within", "=within="), free=True)
    thr = ctx.choose("-r", (0.0, 1.0, 2.5), free=True)
    refused = btype in ("within", "=within=")
    pat = 27 if refused else ctx.choose("pattern", tuple(range(0, 256, ctx.params.get("stride", 1))), free=True)
    ai = base_input(seed, nt=2, nl=4)
    ai.leads = list(WIN_LEADS)
    nser = 0
    for f in ("fcst", "obs"):
        for ti in range(len(ai.times)):
            for si in range(len(ai.locs)):
                code = (pat * (1 if nser == 0 else 7) + 37 * nser) % 256
                for li in range(4):
                    ai.fields[f][(ti, li, si)] = WIN_VALUES[(code >> (2 * li)) & 3]
                nser += 1
    for f in ("obs", "fcst"):
        for pos in [(0, 0, 0), (0, 1, 0), (1, 2, 1), (1, 3, 0)]:
            if not refused and ctx.choose_bool("miss:%s:%r" % (f, pos)):
                del ai.fields[f][pos]
    src = write_input(ai, via, "c20win")
    dst = os.path.join(H.scratch(), "c20win", "out%d.nc" % os.getpid())
    if os.path.exists(dst):
        os.remove(dst)
    argv = [src, dst, "-r", thr] + (["-b", btype] if btype is not None else [])
    ctx.note("argv", [os.path.basename(str(a)) for a in argv])
    kind, _, site, out_txt = run_script("window.py", argv)
    if refused:
        # one threshold does not define a within-interval: the script must refuse, not write something
        ctx.require(kind == "exit", "window:improper-bin-type-not-rejected", kind=kind, site=site)
        ctx.outcome("rejected")
        ctx.observe(("rejected", btype))
        return
    if kind != "ok":
        ctx.fail("window:%s:%s" % (kind, site or "rejected"), stdout=out_txt[-200:])
        return
    out = read_nc(dst)
    ids = check_meta(ctx, out, ai, "window")
    attrs = out["__attrs__"]
    ctx.require(str(attrs.get("units", "")).replace("$", "") == "mm", "window:units-not-preserved", actual=str(attrs.get("units")))
    ctx.require(str(attrs.get("long_name", "")) == "Precip", "window:variable-name-not-preserved", actual=str(attrs.get("long_name")))
    closed = btype in (None, "below=")
    judged = 0
    for f in ("obs", "fcst"):
        for ti in range(len(ai.times)):
            for si, sid in enumerate(ids):
                sj = [j for j, l in enumerate(ai.locs) if float(l[0]) == sid][0]
                series = [ai.get(f, (ti, li, sj)) for li in range(4)]
                exp = _win_expected(series, ai.leads, thr, closed)
                for li in range(4):
                    g = float(out[f][ti, li, si])
                    if exp[li] is None:
                        ctx.require(math.isnan(g), "window:missing-value-got-a-window", field=f, time=ti, lead=li, actual=g, series=series)
                        continue
                    cands = [e for e in exp[li] if e != "?"]
                    if len(cands) < 2:
                        # a missing value inside the run: only "not missing, a length between 0 and the end of the file" is promised
                        ctx.require(not math.isnan(g) and 0 <= g <= ai.leads[-1] - ai.leads[li], "window:range", field=f, lead=li, actual=g, series=series)
                        continue
                    judged += 1
                    ctx.require(any(abs(e - g) < 1e-6 for e in cands), "window:length:%s" % ("closed" if closed else "open"), field=f, time=ti, lead=li,
                                expected=cands, actual=g, series=series, threshold=thr, argv=ctx.notes["argv"])
    ctx.count(judged)
    ctx.observe((via, btype, thr, tuple(np.nan_to_num(out["fcst"], nan=-7).reshape(-1).tolist())))
    ctx.outcome("longest=%g" % np.nanmax(out["fcst"]))
    ctx.nontrivial(len(set(np.nan_to_num(out["fcst"], nan=-7).reshape(-1).tolist())) > 1)


def plan(tier):
    q = tier == "quick"
    return [("accumulate", h_accumulate, {"sizes": True}, "dev", 1 if q else 2),
            ("ens2prob", h_ens2prob, {"thr": ordered_selections([1.0, 2.0, 5.0], 2) + [(5.0, 0.0, 2.0)] if q else ordered_selections([0.0, 1.0, 2.0, 5.0], 3),
                          "qs": ordered_selections([0.0, 0.5, 1.0], 2) + [(0.25, 0.75), (0.75, 0.25)] if q else ordered_selections([0.0, 0.25, 0.5, 0.75, 1.0], 2) + [(0.75, 0.25, 0.5), (0.0, 1.0, 0.5)]}, "dev", 1 if q else 2),
            ("expandverif", h_expand, {}, "dev", 1),
            ("window", h_window, {"stride": 7 if q else 1}, "dev", 1 if q else 2),
            # text2nc is a helper script too: the round-trip oracle of C10 (every field of the text file, pit included, is in the NetCDF file)
            ("text2nc", T10.h_text2nc, {}, "full", None)]


def run(tier, only=None):
    subs = []
    for name, h, params, mode, k in plan(tier):
        if only and only != name:
            continue
        t0 = time.time()
        st = explore.explore(h, mode=mode, k=k, params=params, repo_root=core.REPO, time_cap=(300 if tier == "quick" else 3000))
        bound = {"accumulate": "full {text,nc} x 6 windows x 2 axes x -i, dev(%s) over missing cells" % k,
                 "ens2prob": "full {text,nc} x 1-3 members x ordered threshold selections x ordered level selections x -p, dev(%s) over missing obs/member/fcst" % k,
                 "window": "full {text,nc} x {default, below=, below, within, =within=} x 3 thresholds x %s lead-time value patterns over {0, 0.5, 1, 2}^4 (irregular lead times), dev(%s) over missing cells" % ("37 of the 256" if tier == "quick" else "all 256", k),
                 "text2nc": "2^5 field subsets x 3 missing-cell variants x 2 row orders x 5 x0/x1 declarations (the round trip of C10)",
                 "expandverif": "full {text,nc} x 9 -i lists x 36 -lt lists (ascending subsets and permuted / descending ones) x 2 input init hours x {ascending, descending, rotated} input time axis of three days, dev(1) missing obs"}[name]
        subs.append(core.Sub.from_e1(name, st, bound=bound, rule="one execution = one script run, every output cell compared with the reference transformation",
                                     required_flags=("pit-missing-obs", "decimal-tie") if name == "ens2prob" else ("ordinary-size",) if name == "accumulate" else (), wall=time.time() - t0))
    return subs


def replay(rec):
    for tier in (rec.get("tier", "quick"), "thorough", "quick"):
        for name, h, params, mode, k in plan(tier):
            if name == rec["subcheck"]:
                ctx, _ = explore.replay(h, rec["choices"], None, params=params, repo_root=core.REPO)
                return [v.locus for v in ctx.violations if v.locus == rec["signature"][1]]
    return []
