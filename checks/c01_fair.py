"""C01 - fair comparison: every input is scored on the identical set of cases.

E1 enumerations on the real verif.data.Data (in-memory inputs) and through the CLI (text files):
 miss16    all 2^16 missingness patterns of 2 inputs x {obs,fcst} x 4 cases
 coverage  full product of per-input coverage subsets (which of 3 times / 3 locations an input contains),
           presence of the observation field, via in-memory inputs and via text files + driver
 dev       3 inputs (+ climatology), probabilistic fields, deviation-bounded over coverage / missing cells /
           obs presence / climatology, all field combinations a score can request, all axes and slices,
           with the differential pair "replace input j's forecasts -> other inputs unchanged"
Oracle: mc/ref/dataset.py (a case is valid iff every file has every requested field there).
"""
import itertools
import time

import numpy as np

from mc import core, explore, gen
from mc import harness as H
from mc.ref import dataset as RD
from mc.ref import calendar as cal
from checks import common_data as CD

PID = "C01"
LEVEL = "exploration"
TECHNIQUE = "bounded exhaustive enumeration (E1: full products and deviation-bounded choice trees) of datasets on the real Data object and CLI, every execution compared with the reference dataset model"
ASSUMPTIONS = ["files that disagree on an observation value are outside this property (C02 covers value provenance)",
               "value alphabets: distinct float32-exact dyadic numbers in every cell"]

DAY = 86400
T0 = 1330387200


def grid(nt, nl, ns, seed):
    times = [T0 + i * DAY for i in range(nt)]
    leads = [0.0, 6.0, 12.0][:nl]
    locs = gen.std_locs(ns, seed)
    return times, leads, locs


def fill(ai, names, values, shared_obs=None):
    """give every cell of every named field a distinct value; obs values are shared between inputs"""
    for fi, n in enumerate(names):
        d = {}
        P = ai.positions()
        if n != "obs":
            # a different permutation of fresh values per field: no two fields are co-monotonic
            block = [next(values) for _ in P]
            stride = [k for k in (3, 5, 7, 11, 13) if len(P) % k != 0 or len(P) == 1][fi % 3] if len(P) > 1 else 1
            import math
            while math.gcd(stride, len(P)) != 1:
                stride += 1
        for pi, pos in enumerate(P):
            if n == "obs":
                t, l, s = ai.times[pos[0]], ai.leads[pos[1]], ai.locs[pos[2]][0]
                d[pos] = shared_obs[(t, l, s)]
            else:
                d[pos] = block[(pi * stride + fi) % len(P)]
        ai.fields[n] = d


# ------------------------------------------------------------------------------------------------------
def h_miss16(ctx):
    seed = core.seed()
    times, leads, locs = grid(2, 1, 2, seed)
    vals = iter(gen.unique_values(seed, 64))
    obsv = {(t, l, s[0]): next(vals) for t in times for l in leads for s in locs}
    A = gen.AInput("A", times, leads, locs)
    B = gen.AInput("B", times, leads, locs)
    fill(A, ["obs", "fcst"], vals, obsv)
    fill(B, ["obs", "fcst"], vals, obsv)
    nmiss = 0
    for ai in (A, B):
        for f in ("obs", "fcst"):
            for pos in ai.positions():
                if ctx.choose_bool("miss:%s:%s:%r" % (ai.name, f, pos), free=True):
                    del ai.fields[f][pos]
                    nmiss += 1
    ref = RD.RefData([A, B])
    kind, data, site, _ = CD.make_data([A, B])
    if kind != "ok":
        ctx.fail("data-%s:%s" % (kind, site))
        return
    sig = CD.check_requests(ctx, data, ref, [["obs", "fcst"], ["fcst"], ["obs"]], ["no", "time", "location", "all"], "miss16")
    ctx.observe(sig)
    rows = ref.request(["obs", "fcst"], 0, "no", 0)
    ctx.outcome("valid=%d" % len(rows))
    # non-trivial: some case valid for all and some case missing in one file but present in the other
    partial = False
    for pos in A.positions():
        a = A.get("fcst", pos) is not None
        b = B.get("fcst", pos) is not None
        if a != b:
            partial = True
    if partial:
        ctx.flag("missing-in-one-present-in-other")
    ctx.nontrivial(len(rows) > 0 and partial)


# ------------------------------------------------------------------------------------------------------
SUBSETS3 = [s for n in (3, 2, 1) for s in itertools.combinations(range(3), n)]   # 7, default = all three


def h_coverage(ctx):
    seed = core.seed()
    via = ctx.params["via"]
    times, leads, locs = grid(3, 1, 3, seed)
    vals = iter(gen.unique_values(seed, 128))
    obsv = {(t, l, s[0]): next(vals) for t in times for l in leads for s in locs}
    inputs = []
    b_has_obs = ctx.choose("B-has-obs", (True, False), free=True)
    for name in ("A", "B"):
        ts = ctx.choose("times:%s" % name, SUBSETS3, free=True)
        ss = ctx.choose("locs:%s" % name, SUBSETS3, free=True)
        # different file orders for the two inputs so that positions never coincide by accident
        tt = [times[i] for i in ts]
        ll = [locs[i] for i in ss]
        if name == "B":
            tt, ll = tt[::-1], ll[::-1]
        ai = gen.AInput(name, tt, leads, ll)
        names = ["obs", "fcst"] if (name == "A" or b_has_obs) else ["fcst"]
        fill(ai, names, vals, obsv)
        inputs.append(ai)
    # one missing forecast in A at its first cell keeps the missing-value path alive
    first = inputs[0].positions()[0]
    del inputs[0].fields["fcst"][first]
    try:
        ref = RD.RefData(inputs)
    except RD.RefError as e:
        ref = None
    if via == "cli":
        from mc import datasets
        paths = []
        import os
        d = os.path.join(H.scratch(), "c01cov")
        os.makedirs(d, exist_ok=True)
        for ai in inputs:
            p = os.path.join(d, ai.name + ".txt")
            gen.text_file(ai, p)
            paths.append(p)
        for ax in ("location", "time"):
            for metric, agg in (("mae", "mean"), ("mae", "count"), ("obs", "mean")):
                r = H.run_cli(paths + ["-m", metric, "-agg", agg, "-x", ax, "-type", "csv"])
                if ref is None:
                    ok = r.kind == "exit" and r.code not in (0, None)
                    ctx.require(ok, "cli:empty-intersection-not-rejected", kind=r.kind, stdout=r.stdout[-200:])
                    ctx.outcome("rejected")
                    continue
                if r.kind != "ok":
                    ctx.fail("cli:%s:%s" % (r.kind, r.site or ""), stdout=r.stdout[-200:], metric=metric, axis=ax)
                    continue
                hdr, rows = CD.parse_csv(r.stdout)
                vals_ax = ref.axis_values(ax)
                if not ctx.require(len(rows) == len(vals_ax), "cli:row-count", expected=len(vals_ax), actual=len(rows), axis=ax):
                    continue
                ncol0 = len(rows[0]) - 2 if rows else 0
                for k, row in enumerate(rows):
                    for i in range(2):
                        pairs = ref.request(["obs", "fcst"], i, ax, k) if metric == "mae" else ref.request(["obs"], i, ax, k)
                        if metric == "mae":
                            xs = [abs(o - f) for o, f in pairs]
                        else:
                            xs = [o for (o,) in pairs]
                        if agg == "count":
                            exp = float(len(xs)) if xs else float("nan")
                            # an empty slice is reported as one NaN value: count of valid values is then 0
                            if not xs:
                                exp = 0.0
                        else:
                            exp = sum(xs) / len(xs) if xs else float("nan")
                        cell = row[ncol0 + i]
                        if agg == "count" and not xs:
                            # no valid case: NaN (the slice has no score) and 0 (no values) are both correct reports
                            ctx.require(cell in ("nan", "0"), "cli:%s-count-empty:%s" % (metric, ax), actual=cell, input=i, row=k)
                            continue
                        ctx.require(CD.close_printed(exp, cell), "cli:%s-%s:%s" % (metric, agg, ax), expected=exp,
                                    actual=cell, input=i, row=k)
                ctx.observe((ax, metric, agg, tuple(tuple(r) for r in rows)))
        ctx.outcome("ok" if ref is not None else "empty")
        ctx.nontrivial(ref is not None and (len(ref.T) < 3 or len(ref.S) < 3))
        return
    kind, data, site, out = CD.make_data(inputs)
    if ref is None:
        ctx.require(kind == "exit", "empty-intersection-not-rejected", kind=kind)
        ctx.outcome("rejected")
        ctx.observe(("rejected",))
        return
    if kind != "ok":
        ctx.fail("data-%s:%s" % (kind, site), stdout=out[-200:])
        return
    ctx.require([float(t) for t in data.times] == [float(t) for t in ref.T], "coverage:times", expected=ref.T, actual=list(data.times))
    ctx.require([l.id for l in data.locations] == ref.S, "coverage:locations", expected=ref.S,
                actual=[l.id for l in data.locations])
    sig = CD.check_requests(ctx, data, ref, [["obs", "fcst"], ["fcst"], ["obs"]], ["no", "time", "location", "all"], "coverage")
    ctx.observe(sig)
    ctx.outcome("T=%d,S=%d" % (len(ref.T), len(ref.S)))
    if not b_has_obs:
        ctx.flag("obs-shared")
    ctx.nontrivial(len(ref.T) < 3 or len(ref.S) < 3)


# ------------------------------------------------------------------------------------------------------
P1, P2 = ("p", 1.0), ("p", 2.0)
Q1, Q9 = ("q", 0.1), ("q", 0.9)
ROLE_SETS = [["obs", "fcst"], ["fcst"], ["obs"], ["pit"], ["obs", P1], ["obs", P1, P2], ["obs", Q1],
             [Q1, Q9, "fcst", "obs"], ["fcst", "pit"]]
FIELDS = ["obs", "fcst", "pit", "p1", "p2", "q0.1", "q0.9", "e0"]      # e0: a one-member ensemble (one missing cell = no member at all)


def h_dev(ctx):
    seed = core.seed()
    n = ctx.params["n"]
    times, leads, locs = grid(2, 2, 2, seed) if ctx.params.get("shape") == "222" else grid(2, 1, 2, seed)
    vals = iter(gen.unique_values(seed, 600))
    obsv = {(t, l, s[0]): next(vals) for t in times for l in leads for s in locs}
    clim_mode = ctx.choose("clim", ("none", "subtract", "divide"))
    inputs = []
    names_in = ["A", "B", "C", "D"][:n]
    nobs = 0
    for name in names_in:
        ts = ctx.choose("times:%s" % name, [s for s in SUBSETS3 if max(s) < len(times)] or [tuple(range(len(times)))])
        ss = ctx.choose("locs:%s" % name, [s for s in SUBSETS3 if max(s) < len(locs)] or [tuple(range(len(locs)))])
        has_obs = ctx.choose("has-obs:%s" % name, (True, False)) if name != "A" else True
        tt = [times[i] for i in ts]
        ll = [locs[i] for i in ss]
        if name in ("B", "D"):
            tt, ll = tt[::-1], ll[::-1]
        ai = gen.AInput(name, tt, leads, ll)
        fill(ai, [f for f in FIELDS if f != "obs" or has_obs], vals, obsv)
        inputs.append(ai)
    clim = None
    if clim_mode != "none":
        clim = gen.AInput("K", times, leads, locs)
        fill(clim, [f for f in FIELDS if f != "obs"], vals, obsv)
    # missing cells: one choice point per (file, field, cell)
    for ai in inputs + ([clim] if clim else []):
        for f in ai.field_names():
            for pos in ai.positions():
                if ctx.choose_bool("miss:%s:%s:%r" % (ai.name, f, pos)):
                    del ai.fields[f][pos]
    if clim is not None and clim_mode == "divide":
        # a zero in the climatology (non-finite quotient) is a deviation of its own
        if ctx.choose_bool("clim-zero"):
            p0 = clim.positions()[-1]
            if p0 in clim.fields["fcst"]:
                clim.fields["fcst"][p0] = 0.0
    kw = {}
    if ctx.choose_bool("obs-range"):
        ov = sorted(set(obsv.values()))
        kw["obs_range"] = [ov[1], ov[-2]]          # the smallest and the largest observation fall outside
        ctx.flag("obsrange")
    # -d (the last day, or every day): applied to the common times; every input is then read at ITS OWN positions of those times
    dsel = ctx.choose("-d", ("none", "last-day", "all-days"))
    if dsel != "none":
        kw["dates"] = [cal.unixtime_to_date(t) for t in (times[-1:] if dsel == "last-day" else times)]
        ctx.flag("dates")
    try:
        ref = RD.RefData(inputs, clim=clim, clim_type=clim_mode if clim else "subtract", **kw)
    except RD.RefError:
        ref = None
    kind, data, site, out = CD.make_data(inputs, aclim=clim, clim_type=clim_mode if clim else "subtract", **kw)
    if ref is None:
        ctx.require(kind == "exit", "empty-intersection-not-rejected", kind=kind)
        ctx.outcome("rejected")
        ctx.observe(("rejected",))
        return
    if kind != "ok":
        ctx.fail("data-%s:%s" % (kind, site), stdout=out[-200:])
        return
    if not ref.T:
        # -d left no common time: not an error, but no input may be given a number (the shape of an empty answer is not specified)
        for i in range(n):
            kind2, res, site2, _ = CD.get_scores(data, ["obs", "fcst"], i, "no", 0)
            if kind2 == "ok":
                ctx.require(not any(np.isfinite(np.asarray(a, dtype=float)).any() for a in res), "dev:empty-times-gives-numbers", input=i)
        ctx.outcome("empty-times")
        ctx.observe(("empty-times",))
        return
    # a threshold no file stores: its probability comes from the ensemble, and a case where one file has no member is missing for all
    ev = sorted(v for ai in inputs for v in ai.fields["e0"].values() if not gen.is_missing(v))
    PE = ("p", (ev[len(ev) // 2] if ev else 0.0) + 0.0625)
    sig = CD.check_requests(ctx, data, ref, ROLE_SETS + [["obs", PE], [("e", 0)]], ["no", "time", "leadtime", "location", "month", "leadtimeday", "all"], "dev")
    # identical case sets and identical observation values for all inputs
    for roles in (["obs", "fcst"], ["obs", P1]):
        base = None
        for i in range(n):
            kind2, res, site2, _ = CD.get_scores(data, roles, i, "all", None)
            if kind2 != "ok":
                continue
            valid = ~np.isnan(res[0])
            obs = np.where(valid, res[0], 0)
            if base is None:
                base = (valid, obs)
            else:
                ctx.require(bool(np.array_equal(valid, base[0])), "dev:case-sets-differ-between-inputs", roles=roles, input=i)
                ctx.require(bool(np.array_equal(obs, base[1])) or clim is not None, "dev:obs-differ-between-inputs", roles=roles, input=i)
    # the same, asking for the LAST input first on a fresh dataset (the order of requests must not decide who is filtered)
    if n >= 2 and kw:
        kindr, datar, siter, _ = CD.make_data(inputs, aclim=clim, clim_type=clim_mode if clim else "subtract", **kw)
        if kindr == "ok":
            for i in reversed(range(n)):
                kind2, res, site2, _ = CD.get_scores(datar, ["obs", "fcst"], i, "no", 0)
                if kind2 == "ok":
                    exp = ref.request(["obs", "fcst"], i, "no", 0)
                    ctx.require(RD.rows_equal(exp, RD.impl_rows(res)), "dev:slice:obs+fcst:no:reversed-request-order", input=i, expected=exp, actual=RD.impl_rows(res))
    # differential pair: replace every non-missing forecast of input j -> the other inputs' answers are bit-identical
    if n >= 2:
        j = ctx.choose("perturb-input", list(range(n)))
        inputs2 = [a.copy() for a in inputs]
        for pos, v in list(inputs2[j].fields["fcst"].items()):
            if not gen.is_missing(v):
                inputs2[j].fields["fcst"][pos] = v + 64.0
        kindp, datap, sitep, _ = CD.make_data(inputs2, aclim=clim, clim_type=clim_mode if clim else "subtract", **kw)
        if kindp == "ok":
            for i in range(n):
                if i == j:
                    continue
                for roles in (["obs", "fcst"], ["fcst"], ["obs", P1]):
                    for ax, k in (("no", 0), ("all", None), ("location", 0)):
                        k1, r1, s1, _ = CD.get_scores(data, roles, i, ax, k)
                        k2, r2, s2, _ = CD.get_scores(datap, roles, i, ax, k)
                        if k1 == "ok" and k2 == "ok":
                            same = all(np.array_equal(np.asarray(a), np.asarray(b), equal_nan=True) for a, b in zip(r1, r2))
                            ctx.require(same, "dev:changing-one-inputs-forecasts-changes-another", perturbed=j, input=i,
                                        roles=roles, axis=ax)
            ctx.flag("differential")
    ctx.observe(sig)
    nvalid = len(ref.request(["obs", "fcst"], 0, "no", 0))
    ctx.outcome("valid=%d,clim=%s" % (nvalid, clim_mode))
    if clim is not None:
        ctx.flag("clim")
    ctx.nontrivial(ctx.deviations > 0 and nvalid > 0)


def h_metrics(ctx):
    """every metric is computed on exactly the cases where every file has every quantity the metric uses: the score must not change
    when those quantities are made missing together (in every input) wherever one of them is missing"""
    from checks import c04_missing as C4
    import verif.axis
    seed = core.seed()
    inputs = C4.dataset(seed)
    cells = [(ii, f, pos) for ii in range(2) for f in ("obs", "fcst", "pit", "p1", "p2", "q0.1", "q0.9", "e0") for pos in inputs[0].positions()[::2]]
    for (ii, f, pos) in cells:
        if ctx.choose_bool("miss:%d:%s:%r" % (ii, f, pos)):
            inputs[ii].fields[f].pop(pos, None)
    kind, data, site, out = CD.make_data(inputs)
    if kind != "ok":
        ctx.fail("metrics:data-%s:%s" % (kind, site))
        return
    nchecked = 0
    for name, m, iv in C4.metric_menu():
        spy = C4.Spy(data)
        axis = verif.axis.get("no")
        k1, v1, s1, _ = H.quiet_call(m.compute, spy, 0, axis, iv)
        if k1 != "ok":
            continue
        roles = set()
        for fields, ii, a, ak in spy.requests:
            for f in fields:
                r = C4.field_role(f)
                if r is not None:
                    roles.add(r if isinstance(r, str) else tuple(r))
        names = set()
        for r in roles:
            if isinstance(r, str):
                names.add(r)
            elif r[0] == "p":
                names.add("p%s" % gen.fmt_num(r[1]))
            elif r[0] == "q":
                names.add("q%s" % gen.fmt_num(r[1]))
            elif r[0] == "e":
                names.add("e%d" % r[1])
            else:
                names.add(r[1])
        names = [x for x in names if x in inputs[0].fields]
        if len(names) < 2:
            continue
        # canonical dataset: the metric's quantities are missing together, in every input
        canon = [a.copy() for a in inputs]
        for pos in inputs[0].positions():
            if any(a.get(f, pos) is None for a in inputs for f in names):
                for a in canon:
                    for f in names:
                        a.fields[f].pop(pos, None)
        kc, dc, sc, _ = CD.make_data(canon)
        if kc != "ok":
            continue
        for i in range(2):
            for ax in ("no", "leadtime"):
                a1 = H.quiet_call(m.compute, data, i, verif.axis.get(ax), iv)
                a2 = H.quiet_call(m.compute, dc, i, verif.axis.get(ax), iv)
                if a1[0] == "ok" and a2[0] == "ok":
                    x, y = np.asarray(a1[1], dtype=float), np.asarray(a2[1], dtype=float)
                    nchecked += 1
                    same = x.shape == y.shape and bool(np.all((np.isnan(x) & np.isnan(y)) | (x == y) | (np.abs(np.where(np.isfinite(x - y), x - y, np.inf)) <= 1e-9 * np.maximum(1, np.abs(np.where(np.isfinite(x), x, 1))))))
                    if not same:
                        ctx.fail("metrics:uses-cases-where-one-of-its-quantities-is-missing:%s" % name, quantities=sorted(names), axis=ax, input=i,
                                 score=x.tolist(), score_on_joint_cases=y.tolist())
    ctx.count(nchecked)
    ctx.observe(tuple(sorted((ii, f, pos) for (ii, f, pos) in cells if pos not in inputs[ii].fields[f])))
    ctx.outcome("dev=%d" % ctx.deviations)
    ctx.flag("metrics")
    ctx.nontrivial(ctx.deviations > 0)


SUBS = {"miss16": h_miss16, "coverage": h_coverage, "coverage-cli": h_coverage, "dev": h_dev}


def plan(tier):
    if tier == "quick":
        return [("miss16", h_miss16, "full", None, None), ("coverage", h_coverage, "full", None, {"via": "mem"}),
                ("coverage-cli", h_coverage, "full", None, {"via": "cli"}),
                ("dev3", h_dev, "dev", 2, {"n": 3}), ("dev2-222", h_dev, "dev", 2, {"n": 2, "shape": "222"}), ("metrics", h_metrics, "dev", 1, {})]
    return [("miss16", h_miss16, "full", None, None), ("coverage", h_coverage, "full", None, {"via": "mem"}),
            ("coverage-cli", h_coverage, "full", None, {"via": "cli"}),
            ("dev3", h_dev, "dev", 3, {"n": 3}), ("dev4", h_dev, "dev", 2, {"n": 4}),
            ("dev2-222", h_dev, "dev", 3, {"n": 2, "shape": "222"}), ("dev1", h_dev, "dev", 3, {"n": 1}), ("metrics", h_metrics, "dev", 2, {})]


RULES = {
    "miss16": ("full 2^16 missingness patterns (2 inputs x obs,fcst x 4 cases)", ("missing-in-one-present-in-other",)),
    "coverage": ("full product of coverage subsets 7x7 per input x obs presence", ("obs-shared",)),
    "coverage-cli": ("as coverage, through text files and driver.run -m mae|obs -agg mean|count -x location|time", ()),
    "metrics": ("dev over one missing cell per (input, field, case): every metric's score == its score on the dataset where the quantities it requests are made missing jointly", ("metrics",)),
}


def run(tier, only=None):
    subs = []
    for name, h, mode, k, params in plan(tier):
        if only and only != name:
            continue
        t0 = time.time()
        st = explore.explore(h, mode=mode, k=k, params=params, repo_root=core.REPO, time_cap=(600 if tier == "quick" else 3000))
        bound, flags = RULES.get(name, ("dev(%s) over coverage subsets, obs presence, climatology mode, one missing cell per (file, field, case), perturbed input; %r" % (k, params),
                                        ("differential", "clim", "obsrange") if (params or {}).get("n", 2) >= 2 else ("clim", "obsrange")))
        subs.append(core.Sub.from_e1(name, st, bound=bound,
                                     rule="one execution = one dataset, all requests (field sets x inputs x axes x slices) compared with the reference; "
                                          "non-trivial = a case valid for all and a case missing in one file but present in another (or a strict coverage subset); "
                                          "distinct = distinct vectors of valid-case counts", required_flags=flags, wall=time.time() - t0))
    return subs


def replay(rec):
    for tier in (rec.get("tier", "quick"), "thorough", "quick"):
        for name, h, mode, k, params in plan(tier):
            if name == rec["subcheck"]:
                ctx, _ = explore.replay(h, rec["choices"], rec.get("labels"), params=params, repo_root=core.REPO)
                return [v.locus for v in ctx.violations if v.locus == rec["signature"][1]]
    return []
