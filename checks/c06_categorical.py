"""C06 - categorical scores equal their 2x2 contingency-table definitions.

 tables   every table (a,b,c,d) with 1 <= total <= 8 (thorough 20) as Python ints, numpy ints and floats through
          compute_from_abcd, 25 metrics
 vectors  every (obs, fcst) vector pair of length <= 2 (thorough 3) over the order-type alphabet {0, 1, 1.5, 2, 3, NaN}
          against thresholds (1, 2), all 8 bin types, through _compute_abcd and compute_from_obs_fcst; symmetries
 cli      for every table (total <= 5 / 8) one realising vector pair per bin type - event and non-event values adjacent to
          the threshold, i.e. equal to it where the bin type allows - through -m <metric> -r .. -b .. -type csv
Oracle: mc/ref/metrics_cat.py (fractions) and the documented events as Python comparisons.
"""
import itertools
import math
import os
import time

import numpy as np

from mc import core, explore, gen
from mc import harness as H
from mc.ref import metrics_cat as MC
from checks import common_data as CD
from checks.c07_events import ref_event, BIN_TYPES

PID = "C06"
LEVEL = "exploration"
TECHNIQUE = "bounded exhaustive enumeration (E1) of all 2x2 tables up to a total and all short obs/fcst vectors over an order-type alphabet, 25 metrics x 8 bin types, against exact-fraction reference formulas; symmetry and perfect-forecast relations on every case"
ASSUMPTIONS = ["the all-zero table is reached through empty / all-missing vectors only (not as Python ints)"]

VALS = [0.0, 1.0, 1.5, 2.0, 3.0, float("nan")]
# not equal to a threshold, but within any plausible floating-point tolerance of it (the event definitions are exact comparisons)
NEAR = [1.0 + 1e-7, 2.0 - 1e-7]
T1, T2 = 1.0, 2.0


def tol_equal(exp, got, rtol=1e-9, allow_inf=False):
    if got is np.ma.masked:
        got = float("nan")      # numpy's missing-value marker: converts to NaN in any numeric context
    try:
        g = float(got)
    except (TypeError, ValueError):
        return False
    if exp is None:
        return math.isnan(g) or (allow_inf and math.isinf(g))
    if math.isnan(g) or math.isinf(g):
        return False
    return exp == g or abs(exp - g) <= rtol * max(1.0, abs(exp), abs(g))


_M = {}


def get_metric(name):
    import verif.metric
    if name not in _M:
        _M[name] = verif.metric.get(name)
    return _M[name]


def tables(total_max):
    out = []
    for tot in range(1, total_max + 1):
        for a in range(tot + 1):
            for b in range(tot + 1 - a):
                for c in range(tot + 1 - a - b):
                    out.append((a, b, c, tot - a - b - c))
    return out


def h_tables(ctx):
    tabs = ctx.params["tables"]
    tab = ctx.choose("table", tabs, free=True)
    form = ctx.choose("form", ("int", "npint", "float", "npfloat"), free=True)
    conv = {"int": int, "npint": np.int64, "float": float, "npfloat": np.float64}[form]
    a, b, c, d = [conv(x) for x in tab]
    ctx.note("table", list(tab))
    sig = []
    for name in MC.METRICS:
        m = get_metric(name)
        exp = MC.score(name, *tab)
        kind, got, site, _ = H.quiet_call(m.compute_from_abcd, a, b, c, d)
        if kind != "ok":
            ctx.fail("abcd:%s:%s:%s" % (name, kind, site), table=list(tab), form=form)
            continue
        if not tol_equal(exp, got):
            ctx.fail("abcd:%s:%s" % (name, "value" if exp is not None else "undefined-not-nan"), table=list(tab), form=form, expected=exp, actual=repr(got))
        sig.append(exp)
        if tab[1] == 0 and tab[2] == 0 and name in MC.PERFECT and exp is not None:
            ctx.flag("perfect")
            ctx.require(tol_equal(float(MC.PERFECT[name]), got), "abcd:%s:perfect-forecast" % name, table=list(tab), actual=repr(got))
    ctx.observe((tab, tuple(sig)))
    ctx.outcome("total=%d" % sum(tab))
    ctx.nontrivial(min(tab) == 0 or True)

LARGE_TABLES = [(60000, 3000, 2000, 40000), (70000, 50000, 1, 0), (1, 49000, 47000, 3), (100000, 0, 0, 70000), (46341, 46341, 46341, 46341)]


def h_large(ctx):
    """tables whose counts exceed 2^16 (products of counts exceed 2^31), realised as obs/fcst arrays: the scores are exact-fraction
    definitions evaluated on the counts, whatever integer width the implementation counts in"""
    tab = ctx.choose("table", LARGE_TABLES, free=True)
    form = ctx.choose("dtype", ("float64", "float32"), free=True)
    a, b, c, d = tab
    # event = value above 1.5: (fcst, obs) = (2,2) hit, (2,0) false alarm, (0,2) miss, (0,0) correct rejection
    obs = np.concatenate([np.full(a, 2.0), np.full(b, 0.0), np.full(c, 2.0), np.full(d, 0.0)]).astype(form)
    fcst = np.concatenate([np.full(a, 2.0), np.full(b, 2.0), np.full(c, 0.0), np.full(d, 0.0)]).astype(form)
    iv = interval_for("above", 1.5, None)
    ctx.note("table", list(tab))
    for name in MC.METRICS:
        m = get_metric(name)
        exp = MC.score(name, *tab)
        kind, got, site, _ = H.quiet_call(m.compute_from_obs_fcst, obs, fcst, iv)
        if kind != "ok":
            ctx.fail("large:%s:%s:%s" % (name, kind, site), table=list(tab))
        elif not tol_equal(exp, got, allow_inf=True):
            ctx.fail("large:%s:%s" % (name, "value" if exp is not None else "undefined-not-nan"), table=list(tab), expected=exp, actual=repr(got))
    ctx.observe(tab)
    ctx.outcome("total=%d" % sum(tab))
    ctx.nontrivial()


def counts(obs, fcst, bin_type, t, u):
    a = b = c = d = 0
    for o, f in zip(obs, fcst):
        eo, ef = ref_event(bin_type, o, t, u), ref_event(bin_type, f, t, u)
        if eo is None or ef is None:
            continue
        a += ef and eo
        b += ef and not eo
        c += (not ef) and eo
        d += (not ef) and (not eo)
    return a, b, c, d


def interval_for(bin_type, t, u):
    import verif.util
    th = [t] if u is None else [t, u]
    return verif.util.get_intervals(bin_type, np.array(th))[0]


COMPLEMENT = {"above": "below=", "below=": "above", "above=": "below", "below": "above="}


def h_vectors(ctx):
    n = ctx.choose("length", list(range(0, ctx.params["maxlen"] + 1)), free=True)
    vals = VALS + (NEAR if ctx.params.get("near") else [])
    obs = [ctx.choose("obs%d" % i, vals, free=True) for i in range(n)]
    fcst = [ctx.choose("fcst%d" % i, vals, free=True) for i in range(n)]
    bin_type = ctx.choose("bin", BIN_TYPES, free=True)
    ctx.note("obs", obs)
    ctx.note("fcst", fcst)
    # (T1, T1): a repeated threshold - the closed interval [t, t] is the event "exactly t", the others are empty
    events = [(T1, T2), (T1, T1)] if "within" in bin_type else [(T1, None), (T2, None)]
    m0 = get_metric("ets")
    sig = []
    for (t, u) in events:
        import verif.util
        kindi, ivs, sitei, _ = H.quiet_call(verif.util.get_intervals, bin_type, np.array([t] if u is None else [t, u]))
        if kindi != "ok" or len(ivs) != 1:
            ctx.fail("intervals:%s:%s" % (bin_type, "repeated-threshold" if t == u else "count"), t=t, u=u, problem=str(sitei or kindi), intervals=(len(ivs) if kindi == "ok" else None))
            continue
        iv = ivs[0]
        exp = counts(obs, fcst, bin_type, t, u)
        nvalid = sum(1 for o, f in zip(obs, fcst) if not (math.isnan(o) or math.isnan(f)))
        O, F = np.array(obs, dtype=float), np.array(fcst, dtype=float)
        kind, got, site, _ = H.quiet_call(m0._compute_abcd, O.copy(), F.copy(), iv)
        if kind != "ok":
            ctx.fail("counts:%s:%s" % (kind, site), obs=obs, fcst=fcst, bin=bin_type)
            continue
        if n == 0:
            ok = all((isinstance(v, float) and math.isnan(v)) for v in got)
            ctx.require(ok, "counts:empty-vector-not-nan", actual=repr(got))
        else:
            gi = []
            for v in got:
                gi.append(None if (v is np.ma.masked or (isinstance(v, float) and math.isnan(v))) else int(v))
            if nvalid == 0:
                # no valid pair: the four counts are zero or missing
                ctx.require(all(v in (0, None) for v in gi), "counts:no-valid-pairs", obs=obs, fcst=fcst, actual=gi)
            else:
                ctx.require(tuple(gi) == tuple(exp), "counts:%s" % bin_type, obs=obs, fcst=fcst, expected=list(exp), actual=gi, t=t, u=u)
                ctx.require(sum(v or 0 for v in gi) == nvalid, "counts:sum-is-not-number-of-valid-pairs", obs=obs, fcst=fcst, actual=gi, valid=nvalid)
        # symmetry: exchanging obs and fcst exchanges misses and false alarms
        kind2, got2, _, _ = H.quiet_call(m0._compute_abcd, F.copy(), O.copy(), iv)
        if kind == "ok" and kind2 == "ok" and nvalid > 0:
            ctx.flag("swap")
            ctx.require(_ints(got2) == [_ints(got)[0], _ints(got)[2], _ints(got)[1], _ints(got)[3]], "symmetry:swap-obs-fcst", obs=obs, fcst=fcst,
                        bin=bin_type, original=_ints(got), swapped=_ints(got2))
        # symmetry: complementing the event exchanges hits and correct rejections
        if bin_type in COMPLEMENT and nvalid > 0 and kind == "ok":
            ivc = interval_for(COMPLEMENT[bin_type], t, None)
            kind3, got3, _, _ = H.quiet_call(m0._compute_abcd, O.copy(), F.copy(), ivc)
            if kind3 == "ok":
                ctx.flag("complement")
                g = _ints(got)
                ctx.require(_ints(got3) == [g[3], g[2], g[1], g[0]], "symmetry:complement-event", obs=obs, fcst=fcst, bin=bin_type,
                            original=g, complemented=_ints(got3))
        # every metric from the vectors
        for name in MC.METRICS:
            m = get_metric(name)
            e = MC.score(name, *exp) if nvalid > 0 else None
            kind4, val, site4, _ = H.quiet_call(m.compute_from_obs_fcst, O.copy(), F.copy(), iv)
            if kind4 != "ok":
                ctx.fail("score:%s:%s:%s" % (name, kind4, site4), obs=obs, fcst=fcst, bin=bin_type)
                continue
            if name == "n" and nvalid == 0:
                ok = tol_equal(None, val) or tol_equal(0.0, val)
            else:
                ok = tol_equal(e, val)
            if not ok:
                ctx.fail("score:%s:%s" % (name, "value" if e is not None else "undefined-not-nan"), obs=obs, fcst=fcst, bin=bin_type, t=t, u=u,
                         table=list(exp), expected=e, actual=repr(val))
            if nvalid > 0 and exp[1] == 0 and exp[2] == 0 and name in MC.PERFECT and e is not None:
                ctx.flag("perfect")
                ctx.require(tol_equal(float(MC.PERFECT[name]), val), "score:%s:perfect-forecast" % name, obs=obs, fcst=fcst, actual=repr(val))
        sig.append(exp)
    ctx.observe((bin_type, tuple(sig), n))
    ctx.outcome("n=%d" % n)
    ctx.nontrivial(n > 0)


def _ints(got):
    return [None if (v is np.ma.masked or (isinstance(v, float) and math.isnan(v))) else int(v) for v in got]


# event / non-event representatives adjacent to the thresholds (equal to a threshold where the bin type allows it)
REPR = {"above": (T1 + 0.5, T1), "above=": (T1, T1 - 0.5), "below": (T1 - 0.5, T1), "below=": (T1, T1 + 0.5),
        "within": (1.5, T1), "=within": (T1, T2), "within=": (T2, T1), "=within=": (T2, T2 + 0.5)}


def h_cli(ctx):
    tab = ctx.choose("table", ctx.params["tables"], free=True)
    bin_type = ctx.choose("bin", BIN_TYPES, free=True)
    ev, nev = REPR[bin_type]
    a, b, c, d = tab
    obs = [ev] * a + [nev] * b + [ev] * c + [nev] * d
    fcst = [ev] * a + [ev] * b + [nev] * c + [nev] * d
    # an extra pair with a missing forecast must not be counted
    obs.append(ev)
    fcst.append(None)
    n = len(obs)
    T0 = 1330387200
    ai = gen.AInput("A", [T0 + 3600 * i for i in range(n)], [0.0], [(1, 50.0, 10.0, 5.0)])
    ai.fields["obs"] = {(i, 0, 0): obs[i] for i in range(n)}
    ai.fields["fcst"] = {(i, 0, 0): fcst[i] for i in range(n) if fcst[i] is not None}
    dd = os.path.join(H.scratch(), "c06cli")
    os.makedirs(dd, exist_ok=True)
    p = gen.text_file(ai, os.path.join(dd, "A.txt"))
    r_arg = "1" if "within" not in bin_type else "1,2"
    ctx.note("case", {"table": list(tab), "bin": bin_type, "obs": obs, "fcst": fcst})
    for name in MC.METRICS:
        r = H.run_cli([p, "-m", name, "-r", r_arg, "-b", bin_type, "-x", "no", "-type", "csv"])
        exp = MC.score(name, a, b, c, d)
        if r.kind != "ok":
            ctx.fail("cli:%s:%s:%s" % (name, r.kind, r.site or ""), stdout=r.stdout[-200:])
            continue
        hdr, rows = CD.parse_csv(r.stdout)
        cell = rows[0][-1] if rows else ""
        ok = CD.close_printed(exp, cell) if exp is not None else cell == "nan"
        if not ok:
            ctx.fail("cli:%s:%s" % (name, bin_type), table=list(tab), expected=exp, actual=cell)
    ctx.observe((tab, bin_type))
    ctx.outcome("total=%d" % sum(tab))
    ctx.nontrivial()


def plan(tier):
    q = tier == "quick"
    return [("tables", h_tables, {"tables": tables(8 if q else 20)}),
            ("vectors", h_vectors, {"maxlen": 2, "near": True} if q else {"maxlen": 3}),
            ] + ([] if q else [("vectors-near", h_vectors, {"maxlen": 2, "near": True})]) + [
            ("cli", h_cli, {"tables": tables(4 if q else 7)}), ("large", h_large, {})]


def run(tier, only=None):
    subs = []
    for name, h, params in plan(tier):
        if only and only != name:
            continue
        t0 = time.time()
        st = explore.explore(h, mode="full", params=params, repo_root=core.REPO, time_cap=(300 if tier == "quick" else 3000))
        bound = {"tables": "all %d tables with 1 <= total <= %d x 4 number forms" % (len(params.get("tables", [])), max(sum(t) for t in params["tables"])) if "tables" in params else "",
                 "vectors": "all vector pairs of length <= %s over {0,1,1.5,2,3,NaN%s} x 8 bin types" % (params.get("maxlen"), ", 1+1e-7, 2-1e-7" if params.get("near") else ""),
                 "vectors-near": "all vector pairs of length <= %s over {0,1,1.5,2,3,NaN, 1+1e-7, 2-1e-7} x 8 bin types" % params.get("maxlen"),
                 "large": "%d tables with counts beyond 2^16, as float64 and float32 arrays, 25 metrics" % len(LARGE_TABLES),
                 "cli": "all %d tables x 8 bin types x 25 metrics through the driver" % len(params.get("tables", []))}[name]
        subs.append(core.Sub.from_e1(name, st, bound=bound,
                                     rule="one execution = one table / vector pair / realised table; 25 metrics each; non-trivial = at least one pair",
                                     required_flags={"tables": ("perfect",), "vectors": ("perfect", "swap", "complement"), "vectors-near": ("perfect", "swap", "complement"), "cli": (), "large": ()}[name],
                                     wall=time.time() - t0))
    return subs


def replay(rec):
    for tier in (rec.get("tier", "quick"), "thorough", "quick"):
        for name, h, params in plan(tier):
            if name == rec["subcheck"]:
                ctx, _ = explore.replay(h, rec["choices"], None, params=params, repo_root=core.REPO)
                return [v.locus for v in ctx.violations if v.locus == rec["signature"][1]]
    return []
