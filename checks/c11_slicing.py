"""C11 - slicing along -x partitions the cases using correct calendar buckets.

 conversions  EVERY day 1900-01-01 .. 2100-12-31: date_to_unixtime, unixtime_to_date, date_to_datenum, unixtime_to_datenum,
              datenum_to_date, get_date(+-step): mutually inverse and equal to an integer-arithmetic calendar
 buckets      EVERY day 1970 .. 2100 x {00:00:00, 06:00, 23:59:59}: the 8 time-bucket functions of verif.axis;
              every lead time 0..72 h in steps of 1/4 h for leadtimeday
 datasets     init times = every subset of size <= 3 (thorough 4) of 18 boundary instants (year end, leap day, Feb 28/Mar 1 in leap
              and non-leap years, Sunday 23 h / Monday 0 h, month ends, 1970-01-01, 2038, 2100), 3 lead times (0, 23, 24), 2 stations,
              partly missing: all axes through get_axis_values / get_scores(axis, i) and through -x <axis> -agg count -type csv
Oracle: mc/ref/calendar.py (civil-from-days arithmetic, independent of datetime) and mc/ref/dataset.py.
"""
import itertools
import math
import os
import time

import numpy as np

from mc import core, explore, gen
from mc import harness as H
from mc.ref import calendar as cal
from mc.ref import dataset as RD
from checks import common_data as CD

PID = "C11"
LEVEL = "exploration"
TECHNIQUE = "exhaustive enumeration (E1) of every calendar day 1900-2100 for the conversions and time buckets, and of all small subsets of boundary instants as datasets on all axes, against an integer-arithmetic reference calendar and the reference dataset model"
ASSUMPTIONS = ["'day of year' may be the calendar's or the leap-aligned one (Mar 1 = 61 in every year): any label that is a function of (month, day), "
               "increasing through the year and equal to the calendar's up to Feb 28 is accepted"]

TIME_AXES = ["year", "month", "week", "day", "timeofday", "dayofyear", "dayofmonth", "monthofyear"]
ALL_AXES = ["time"] + TIME_AXES + ["leadtime", "leadtimeday", "location", "lat", "lon", "elev", "no"]


def ut(y, m, d, hh=0, mm=0, ss=0):
    return cal.days_from_civil(y, m, d) * 86400 + hh * 3600 + mm * 60 + ss


INSTANTS = [ut(1970, 1, 1), ut(1999, 12, 31, 23), ut(2000, 1, 1), ut(2000, 2, 28, 12), ut(2000, 2, 29), ut(2000, 3, 1),
            ut(2001, 2, 28, 23), ut(2001, 3, 1), ut(2012, 12, 30, 23), ut(2012, 12, 31), ut(2013, 1, 1, 6), ut(2013, 3, 31, 12),
            ut(2016, 2, 29, 18), ut(2038, 1, 19, 3), ut(2100, 2, 28), ut(2100, 3, 1, 12),
            # initialisation times that are not on the hour (time of day 0.5 h and 6.75 h, next to 0 h and 6 h above)
            ut(2000, 2, 29) + 1800, ut(2013, 1, 1, 6) + 2700]


def h_conversions(ctx):
    import verif.util
    year = ctx.choose("year", list(range(1900, 2101)), free=True)
    d0 = cal.days_from_civil(year, 1, 1)
    d1 = cal.days_from_civil(year + 1, 1, 1)
    ndays = 0
    for day in range(d0, d1):
        y, m, d = cal.civil_from_days(day)
        date = y * 10000 + m * 100 + d
        u = day * 86400
        ndays += 1
        r = H.quiet_call(verif.util.date_to_unixtime, date)
        if not ctx.require(r[0] == "ok" and r[1] == u, "conv:date_to_unixtime", date=date, expected=u, actual=repr(r[1])):
            continue
        if year >= 1970:
            for sec in (0, 43200, 86399):
                r = H.quiet_call(verif.util.unixtime_to_date, u + sec)
                ctx.require(r[0] == "ok" and r[1] == date, "conv:unixtime_to_date", unixtime=u + sec, expected=date, actual=repr(r[1]))
        else:
            r = H.quiet_call(verif.util.unixtime_to_date, u)
            ctx.require(r[0] == "ok" and r[1] == date, "conv:unixtime_to_date:before-1970", unixtime=u, expected=date, actual=repr(r[1]))
        r1 = H.quiet_call(verif.util.date_to_datenum, date)
        r2 = H.quiet_call(verif.util.unixtime_to_datenum, u)
        ok = r1[0] == "ok" and r2[0] == "ok"
        if ctx.require(ok, "conv:datenum-crash", date=date):
            ctx.require(abs(float(r1[1]) - float(r2[1])) < 1e-9, "conv:date_to_datenum!=unixtime_to_datenum", date=date, a=float(r1[1]), b=float(r2[1]))
            r3 = H.quiet_call(verif.util.datenum_to_date, r1[1])
            ctx.require(r3[0] == "ok" and r3[1] == date, "conv:datenum_to_date-not-inverse", date=date, actual=repr(r3[1]))
            # one day further is one unit further
            if day + 1 < d1:
                y2, m2, dd2 = cal.civil_from_days(day + 1)
                r4 = H.quiet_call(verif.util.date_to_datenum, y2 * 10000 + m2 * 100 + dd2)
                ctx.require(r4[0] == "ok" and abs(float(r4[1]) - float(r1[1]) - 1) < 1e-9, "conv:datenum-step", date=date)
        for step in (1, -1, 7, 30, 365, -366):
            r = H.quiet_call(verif.util.get_date, date, step)
            ctx.require(r[0] == "ok" and r[1] == cal.add_days(date, step), "conv:get_date", date=date, step=step, expected=cal.add_days(date, step), actual=repr(r[1]))
    ctx.count(ndays * 13)
    ctx.observe((year, ndays))
    ctx.outcome("leap" if ndays == 366 else "common")
    ctx.nontrivial()


def h_buckets(ctx):
    import verif.axis
    year = ctx.choose("year", list(range(1970, 2101)), free=True)
    d0 = cal.days_from_civil(year, 1, 1)
    d1 = cal.days_from_civil(year + 1, 1, 1)
    times = []
    for day in range(d0, d1):
        for sec in (0, 6 * 3600, 86399):
            times.append(day * 86400 + sec)
    T = np.array(times)
    doy_mode = None
    for name in TIME_AXES:
        axis = verif.axis.get(name)
        kind, got, site, _ = H.quiet_call(axis.compute_from_times, T)
        if kind != "ok":
            ctx.fail("bucket:%s:%s:%s" % (name, kind, site), year=year)
            continue
        got = [float(x) for x in got]
        if name == "dayofyear":
            a = [float(cal.dayofyear_leap_aligned(t)) for t in times]
            b = [float(cal.dayofyear_calendar(t)) for t in times]
            ctx.require(got == a or got == b, "bucket:dayofyear", year=year, first_difference=_first_diff(got, a, times))
            continue
        exp = [float(cal.TIME_BUCKETS[name](t)) for t in times]
        if name == "timeofday":
            ok = all(abs(x - y) < 1e-9 for x, y in zip(got, exp))
        else:
            ok = got == exp
        ctx.require(ok, "bucket:%s" % name, year=year, first_difference=_first_diff(got, exp, times))
    ctx.count(len(times) * len(TIME_AXES))
    ctx.observe(year)
    ctx.outcome("leap" if d1 - d0 == 366 else "common")
    ctx.nontrivial()


def _first_diff(got, exp, times):
    for g, e, t in zip(got, exp, times):
        if g != e:
            return {"unixtime": t, "date": cal.unixtime_to_date(t), "expected": e, "actual": g}
    return None


def h_leadtimeday(ctx):
    import verif.axis
    leads = [k * 0.25 for k in range(0, 72 * 4 + 1)]
    axis = verif.axis.get("leadtimeday")
    kind, got, site, _ = H.quiet_call(axis.compute_from_leadtimes, np.array(leads))
    if kind != "ok":
        ctx.fail("bucket:leadtimeday:%s:%s" % (kind, site))
        return
    exp = [cal.leadtimeday(l) for l in leads]
    ctx.require([int(x) for x in got] == exp, "bucket:leadtimeday", first_difference=_first_diff([int(x) for x in got], exp, leads))
    ctx.observe(tuple(exp))
    ctx.outcome("ok")
    ctx.nontrivial()


# ---- datasets ------------------------------------------------------------------------------------------------
def build(times, seed):
    locs = gen.std_locs(2, seed)
    leads = [0.0, 23.0, 24.0]
    vals = gen.unique_values(seed, 200)
    A = gen.AInput("A", list(times), leads, locs)
    B = gen.AInput("B", list(times)[::-1], leads[::-1], locs)
    n = 0
    for ai, salt in ((A, 0), (B, 60)):
        fo, ff = {}, {}
        for pos in ai.positions():
            key = (INSTANTS.index(ai.times[pos[0]]), ai.leads[pos[1]], ai.locs[pos[2]][0])
            h = (key[0] * 7 + int(key[1]) * 3 + int(key[2])) % 97
            fo[pos] = vals[h]
            ff[pos] = vals[(h * 5 + 11 + salt) % len(vals)]
        ai.fields["obs"] = fo
        ai.fields["fcst"] = ff
    # partly missing
    del A.fields["fcst"][(0, 1, 0)]
    if len(times) > 1:
        del B.fields["obs"][(0, 0, 1)]
    return [A, B]


def h_datasets(ctx):
    import verif.axis
    seed = core.seed()
    subsets = ctx.params["subsets"]
    sub = ctx.choose("init-times", subsets, free=True)
    times = [INSTANTS[i] for i in sub]
    via = ctx.params["via"]
    inputs = build(times, seed)
    # -d / -tod keeping the LATEST initialisation time (never a prefix of the time list): calendar buckets are those of the kept times
    kw = {}
    filt = ctx.choose("filter", (None, "-d", "-tod"), free=True) if (len(sub) >= 2 and via == "mem") else None
    if filt == "-d":
        kw["dates"] = [cal.unixtime_to_date(max(times))]
    elif filt == "-tod":
        kw["tods"] = [int((max(times) % 86400) // 3600)]
    ref = RD.RefData(inputs, **kw)
    if filt and len(ref.T) < len(times):
        ctx.flag("filtered")
    ctx.note("times", [cal.fmt_time(t, "time") for t in times])
    ctx.note("filter", kw)
    if via == "cli":
        d = os.path.join(H.scratch(), "c11cli")
        os.makedirs(d, exist_ok=True)
        paths = [gen.text_file(ai, os.path.join(d, ai.name + ".txt")) for ai in inputs]
        sig = []
        for ax in ALL_AXES:
            r = H.run_cli(paths + ["-m", "mae", "-agg", "count", "-x", ax, "-type", "csv"])
            r2 = H.run_cli(paths + ["-m", "mae", "-x", ax, "-type", "csv"])
            if r.kind != "ok" or r2.kind != "ok":
                ctx.fail("cli:%s:%s" % (ax, r.site or r2.site or "exit"), stdout=(r.stdout + r2.stdout)[-300:])
                continue
            hdr, rows = CD.parse_csv(r.stdout)
            hdr2, rows2 = CD.parse_csv(r2.stdout)
            nsl = len(ref.axis_values(ax))
            if not ctx.require(len(rows) == nsl and len(rows2) == nsl, "cli:slice-count:%s" % ax, expected=nsl, actual=len(rows)):
                continue
            tot = [0, 0]
            wsum = [0.0, 0.0]
            for k in range(nsl):
                for i in range(2):
                    pairs = ref.request(["obs", "fcst"], i, ax, k)
                    cell = rows[k][len(rows[k]) - 2 + i]
                    cell2 = rows2[k][len(rows2[k]) - 2 + i]
                    if pairs:
                        ctx.require(CD.close_printed(float(len(pairs)), cell), "cli:count:%s" % ax, index=k, input=i, expected=len(pairs), actual=cell)
                        e = sum(abs(o - f) for o, f in pairs) / len(pairs)
                        ctx.require(CD.close_printed(e, cell2), "cli:mae:%s" % ax, index=k, input=i, expected=e, actual=cell2)
                        tot[i] += int(float(cell)) if cell not in ("nan",) else 0
                        wsum[i] += float(cell2) * float(cell) if cell not in ("nan",) else 0
                    else:
                        ctx.require(cell in ("nan", "0") and cell2 == "nan", "cli:empty-slice:%s" % ax, index=k, input=i, actual=[cell, cell2])
            # counts add up; pooled mean = count-weighted mean of the slice means
            for i in range(2):
                pooled = ref.request(["obs", "fcst"], i, "no", 0)
                ctx.require(tot[i] == len(pooled), "cli:counts-do-not-add-up:%s" % ax, expected=len(pooled), actual=tot[i], input=i)
                if pooled:
                    e = sum(abs(o - f) for o, f in pooled) / len(pooled)
                    ctx.require(abs(wsum[i] / max(1, tot[i]) - e) <= 1e-4 * max(1, abs(e)), "cli:weighted-mean:%s" % ax, expected=e, actual=wsum[i] / max(1, tot[i]))
            # labels of the non-date axes
            if ax in ("leadtime", "leadtimeday", "timeofday", "dayofmonth", "monthofyear", "location", "lat", "lon", "elev"):
                col = {"location": 0, "lat": 1, "lon": 2, "elev": 3}.get(ax, 0)
                labels = [float(row[col]) for row in rows]
                exp = [float(v) for v in ref.axis_values(ax if ax not in ("lat", "lon", "elev") else ax)]
                if ax in ("location", "lat", "lon", "elev"):
                    exp = [float(m[col]) for m in ref.locmeta]
                ctx.require(all(abs(a - b) < 1e-4 for a, b in zip(labels, exp)), "cli:labels:%s" % ax, expected=exp, actual=labels)
            sig.append((ax, nsl))
        ctx.observe((tuple(sub), tuple(sig)))
        ctx.outcome("n=%d" % len(sub))
        ctx.nontrivial(len(sub) > 1)
        return
    kind, data, site, out = CD.make_data(inputs, **kw)
    if kind != "ok":
        ctx.fail("data-%s:%s" % (kind, site), stdout=out[-200:])
        return
    sig = []
    for ax in ALL_AXES:
        axis = verif.axis.get(ax)
        kindv, vals, sitev, _ = H.quiet_call(data.get_axis_values, axis)
        if kindv != "ok":
            ctx.fail("axis-values:%s:%s" % (ax, sitev))
            continue
        exp = ref.axis_values(ax)
        got = [float(v) for v in vals]
        if ax == "dayofyear":
            alt = sorted(set(float(cal.dayofyear_calendar(t)) for t in ref.T))
            ok = got == [float(e) for e in exp] or got == alt
        else:
            ok = len(got) == len(exp) and all(abs(a - float(b)) < 1e-9 for a, b in zip(got, exp))
        ctx.require(ok, "axis-values:%s" % ax, expected=exp, actual=got, times=ctx.notes["times"])
        sig.append((ax, len(exp)))
    CD.check_requests(ctx, data, ref, [["obs", "fcst"], ["fcst"]], ALL_AXES, "slices")
    # explicit partition check on the implementation's own answers
    for i in range(2):
        for ax in ALL_AXES:
            axis = verif.axis.get(ax)
            seen = []
            n = len(ref.axis_values(ax))
            for k in range(n):
                kind2, res, site2, _ = CD.get_scores(data, ["obs", "fcst"], i, ax, k)
                if kind2 == "ok":
                    seen += [r for r in RD.impl_rows(res)] if not isinstance(RD.impl_rows(res), str) else []
            kind3, pooled, site3, _ = CD.get_scores(data, ["obs", "fcst"], i, "no", 0)
            if kind3 == "ok":
                pr = RD.impl_rows(pooled)
                ctx.require(sorted(seen) == sorted(pr), "partition:%s" % ax, input=i, union_of_slices=len(seen), pooled=len(pr))
    ctx.observe((tuple(sub), filt, tuple(sig)))
    ctx.outcome("n=%d" % len(sub))
    tod = [cal.bucket_timeofday(t) for t in sorted(times)]
    if len(tod) >= 3 and tod[0] == tod[2] != tod[1]:
        ctx.flag("cyclic-recurrence")
    ctx.nontrivial(len(sub) > 1)


def subsets(maxk):
    out = []
    for k in range(1, maxk + 1):
        out += list(itertools.combinations(range(len(INSTANTS)), k))
    return out


def plan(tier):
    q = tier == "quick"
    return [("conversions", h_conversions, None), ("buckets", h_buckets, None), ("leadtimeday", h_leadtimeday, None),
            ("datasets", h_datasets, {"via": "mem", "subsets": subsets(3 if q else 4)}),
            ("datasets-cli", h_datasets, {"via": "cli", "subsets": subsets(2 if q else 3)})]


def run(tier, only=None):
    subs = []
    for name, h, params in plan(tier):
        if only and only != name:
            continue
        t0 = time.time()
        st = explore.explore(h, mode="full", params=params, repo_root=core.REPO)
        bound = {"conversions": "every day of every year 1900..2100 (one execution per year)", "buckets": "every day of every year 1970..2100 x 3 times of day (one execution per year)",
                 "leadtimeday": "every lead time 0..72 h step 1/4 h", "datasets": "every subset of size <= %d of 18 boundary instants x {no filter, -d, -tod of the latest instant} x 15 axes" % (3 if tier == "quick" else 4),
                 "datasets-cli": "every subset of size <= %d of 18 boundary instants x 15 axes through the driver" % (2 if tier == "quick" else 3)}[name]
        subs.append(core.Sub.from_e1(name, st, bound=bound, rule="non-trivial = more than one init time / every year", min_outcomes=1,
                                     required_flags=("cyclic-recurrence", "filtered") if name == "datasets" else (), wall=time.time() - t0))
    return subs


def replay(rec):
    for tier in (rec.get("tier", "quick"), "thorough", "quick"):
        for name, h, params in plan(tier):
            if name == rec["subcheck"]:
                ctx, _ = explore.replay(h, rec["choices"], None, params=params, repo_root=core.REPO)
                return [v.locus for v in ctx.violations if v.locus == rec["signature"][1]]
    return []
