"""C10 - NetCDF input is read faithfully and agrees with the text format.

 optional   one abstract dataset -> NetCDF with every subset of the optional variables {altitude, location, lat, lon, threshold+cdf,
            quantile+x, ensemble, pit, other} (full 2^9) x time dtype {f8, i4} x global attributes present/absent; the reader's
            answer is compared with the abstract dataset
 encodings  missing cells in each NetCDF encoding (NaN, -999, default-fill mask, explicit ordinary-number _FillValue, 1e31), dev(2)
 agree      the same dataset as text and as NetCDF through get_input: dimensions, location metadata, every field, thresholds,
            quantiles, variable metadata agree; 12 metrics x 3 axes give identical scores (exactly: float32-representable data)
 detect     the reader is chosen by content: NetCDF data in 'x.txt', text data in 'x.nc', no extension at all
 text2nc    scripts/text2nc.py run in-process on generated text files, output read back with netCDF4
"""
import itertools
import math
import os
import runpy
import shutil
import sys
import time

import numpy as np

from mc import core, explore, gen
from mc import harness as H
from mc.ref import dataset as RD
from checks import common_data as CD

PID = "C10"
LEVEL = "exploration"
TECHNIQUE = "bounded exhaustive enumeration (E1) of NetCDF layouts (all subsets of optional variables, missing-value encodings, dtypes, attributes, file names) against the generating abstract dataset and against the text reader on the same data; text2nc round trip"
ASSUMPTIONS = ["values are float32-exact dyadic numbers, so text and NetCDF must agree exactly",
               "defaults for absent optional variables are only checked where documented (location ids 0..n-1)"]

DAY = 86400
T0 = 1330387200
OPTIONAL = ["altitude", "location", "lat", "lon", "cdf", "x", "ensemble", "pit", "other"]
METRICS = ["mae", "bias", "rmse", "corr", "ets", "hit", "bs", "pit", "quantilescore", "obs", "fcst", "stderror"]


def dataset(seed, present=None, nmiss=0):
    present = OPTIONAL if present is None else present
    locs = gen.std_locs(3, seed)
    ai = gen.AInput("D", [T0 + 6 * 3600, T0 + DAY, T0 + 3 * DAY], [0.0, 6.0], locs, variable="Temperature", units="K")
    vals = gen.unique_values(seed, 500)
    names = ["obs", "fcst"]
    if "pit" in present:
        names.append("pit")
    if "cdf" in present:
        names += ["p1", "p5", "p10"]      # a set of floats that does not iterate in ascending order
    if "x" in present:
        names += ["q0.25", "q0.75", "q0.5"]
    if "ensemble" in present:
        names += ["e0", "e1", "e2"]
    if "other" in present:
        names.append("crps")
    k = 0
    for fi, f in enumerate(names):
        ai.fields[f] = {}
        for pos in ai.positions():
            v = vals[(k * 3 + fi * 19) % len(vals)]
            if f[0] == "p":
                v = ((k * 3 + fi) % 9) / 8.0
            ai.fields[f][pos] = v
            k += 1
    return ai


def compare_nc(fail, inp, ai, present, tag):
    """a verif Input read from NetCDF against the abstract dataset, positionally (NetCDF keeps file order)"""
    ok = True
    if [float(t) for t in inp.times] != [float(t) for t in ai.times]:
        fail("%s:times" % tag, expected=ai.times, actual=[float(t) for t in inp.times])
        ok = False
    if [float(t) for t in inp.leadtimes] != [float(t) for t in ai.leads]:
        fail("%s:leadtimes" % tag, expected=ai.leads, actual=[float(t) for t in inp.leadtimes])
        ok = False
    if len(inp.locations) != len(ai.locs):
        fail("%s:location-count" % tag, expected=len(ai.locs), actual=len(inp.locations))
        return False
    for si, (loc, l) in enumerate(zip(inp.locations, ai.locs)):
        if "location" in present:
            if float(loc.id) != float(l[0]):
                fail("%s:location-id" % tag, index=si, expected=l[0], actual=float(loc.id))
                ok = False
        else:
            if float(loc.id) != float(si):
                fail("%s:default-location-id" % tag, index=si, expected=si, actual=float(loc.id))
                ok = False
        for name, j, got in (("lat", 1, loc.lat), ("lon", 2, loc.lon), ("altitude", 3, loc.elev)):
            if name in present and abs(float(got) - l[j]) > 1e-6:
                fail("%s:location-%s" % (tag, name), index=si, expected=l[j], actual=float(got))
                ok = False
    if not ok:
        return False
    thr = [float(x) for x in inp.thresholds]
    qs = [float(x) for x in inp.quantiles]
    exp_thr = sorted(float(n[1:]) for n in ai.fields if gen.kind(n) == "p")
    exp_q = sorted(float(n[1:]) for n in ai.fields if gen.kind(n) == "q")
    if thr != exp_thr:
        fail("%s:thresholds" % tag, expected=exp_thr, actual=thr)
        return False
    if qs != exp_q:
        fail("%s:quantiles" % tag, expected=exp_q, actual=qs)
        return False
    mem = ai.members()
    ens = inp.ensemble
    if (0 if ens is None else ens.shape[3]) != len(mem):
        fail("%s:member-count" % tag, expected=len(mem), actual=0 if ens is None else ens.shape[3])
        return False
    for absent, attr in (("pit", "pit"),):
        if absent not in present and getattr(inp, attr) is not None:
            fail("%s:absent-variable-present" % tag, variable=absent)
    for name in ai.fields:
        kind = gen.kind(name)
        if kind == "obs":
            arr = inp.obs
        elif kind == "fcst":
            arr = inp.fcst
        elif kind == "pit":
            arr = inp.pit
        elif kind == "p":
            arr = inp.threshold_scores[:, :, :, thr.index(float(name[1:]))]
        elif kind == "q":
            arr = inp.quantile_scores[:, :, :, qs.index(float(name[1:]))]
        elif kind == "e":
            arr = ens[:, :, :, mem.index(int(float(name[1:])))]
        else:
            arr = inp.other_score(name)
        if arr is None:
            fail("%s:field-absent:%s" % (tag, kind), field=name)
            return False
        for pos in ai.positions():
            e = ai.get(name, pos)
            g = float(arr[pos])
            if (e is None) != math.isnan(g) or (e is not None and e != g):
                fail("%s:value:%s" % (tag, kind), field=name, position=list(pos), expected=e, actual=g)
                return False
    return True


def h_optional(ctx):
    import verif.input
    seed = core.seed()
    present = [v for v in OPTIONAL if ctx.choose_bool("has:" + v, free=True)]
    tdtype = ctx.choose("time-dtype", ("f8", "i4"), free=True)
    attrs = ctx.choose("attrs", (True, False), free=True)
    ai = dataset(seed, present)
    if attrs:
        ai.x0 = 0.0
    d = os.path.join(H.scratch(), "c10opt")
    os.makedirs(d, exist_ok=True)
    p = os.path.join(d, "o%d.nc" % os.getpid())
    gen.netcdf_file(ai, p, with_vars=[v for v in ("location", "lat", "lon", "altitude") if v in present], time_dtype=tdtype, attrs=attrs)
    ctx.note("present", present)
    kind, inp, site, out = H.quiet_call(verif.input.get_input, p)
    if kind != "ok":
        ctx.fail("optional:%s:%s" % (kind, site or "rejected"), present=present, stdout=out[-200:])
        return
    ctx.require(type(inp).__name__ == "Netcdf", "optional:wrong-reader", actual=type(inp).__name__)
    compare_nc(ctx.fail, inp, ai, present, "optional")
    if attrs:
        ctx.require(inp.variable.name == "Temperature" and inp.variable.units.replace("$", "") == "K", "optional:variable-metadata",
                    actual=[inp.variable.name, inp.variable.units])
        ctx.require(inp.variable.x0 == 0.0 and inp.variable.x1 is None, "optional:x0-x1", actual=[inp.variable.x0, inp.variable.x1])
    else:
        ctx.require(inp.variable.x0 is None and inp.variable.x1 is None, "optional:x0-x1-default", actual=[inp.variable.x0, inp.variable.x1])
    fields = set(type(f).__name__ for f in inp.get_fields())
    ctx.observe((tuple(present), tdtype, attrs, tuple(sorted(fields))))
    ctx.outcome("n=%d" % len(present))
    ctx.nontrivial(len(present) < len(OPTIONAL))


ENCS = ["nan", "-999", "masked", "fill", "1e31"]


def h_encodings(ctx):
    import verif.input
    seed = core.seed()
    ai = dataset(seed)
    cells = [(f, pos) for f in ai.fields for pos in ai.positions()[::3]]
    marks = {}
    for (f, pos) in cells:
        e = ctx.choose("enc:%s:%r" % (f, pos), [None] + ENCS)
        if e is not None:
            marks[(f, pos)] = e
    for (f, pos) in marks:
        del ai.fields[f][pos]
    d = os.path.join(H.scratch(), "c10enc")
    os.makedirs(d, exist_ok=True)
    p = os.path.join(d, "e%d.nc" % os.getpid())
    gen.netcdf_file(ai, p, missing_encs=marks)
    ctx.note("marks", [(f, list(pos), e) for (f, pos), e in marks.items()])
    kind, inp, site, out = H.quiet_call(verif.input.get_input, p)
    if kind != "ok":
        ctx.fail("encodings:%s:%s" % (kind, site or "rejected"), stdout=out[-200:])
        return
    compare_nc(ctx.fail, inp, ai, OPTIONAL, "encodings")
    ctx.observe(tuple(sorted((f, pos, e) for (f, pos), e in marks.items())))
    ctx.outcome("marks=%d" % len(marks))
    ctx.nontrivial(len(marks) > 0)


def h_agree(ctx):
    import verif.input
    import verif.data
    import verif.metric
    import verif.axis
    import verif.interval
    seed = core.seed()
    ai = dataset(seed)
    # deviations: missing cells, encoded differently in the two formats
    cells = [(f, pos) for f in ("obs", "fcst", "pit", "p1", "q0.25", "e1", "crps") for pos in ai.positions()[1::4]]
    marks = {}
    for (f, pos) in cells:
        e = ctx.choose("miss:%s:%r" % (f, pos), [None, "masked", "-999", "nan"])
        if e is not None:
            marks[(f, pos)] = e
    for (f, pos) in marks:
        del ai.fields[f][pos]
    order = ctx.choose("text-row-order", ("natural", "reversed"), free=True)
    # '%' is the one unit that is not wrapped for the LaTeX interpreter: both formats give exactly '%'
    ai.units = ctx.choose("units", ("K", "%"), free=True)
    d = os.path.join(H.scratch(), "c10agree")
    os.makedirs(d, exist_ok=True)
    pn = os.path.join(d, "a%d.nc" % os.getpid())
    pt = os.path.join(d, "a%d.txt" % os.getpid())
    gen.netcdf_file(ai, pn, missing_encs=marks)
    gen.text_file(ai, pt, row_order=ai.positions()[::-1] if order == "reversed" else None)
    kn = H.quiet_call(verif.input.get_input, pn)
    kt = H.quiet_call(verif.input.get_input, pt)
    if kn[0] != "ok" or kt[0] != "ok":
        ctx.fail("agree:read-failed", nc=kn[0], text=kt[0])
        return
    inn, itx = kn[1], kt[1]
    ctx.require(type(inn).__name__ == "Netcdf" and type(itx).__name__ == "Text", "agree:wrong-reader", actual=[type(inn).__name__, type(itx).__name__])
    ctx.require(inn.variable.name == itx.variable.name and inn.variable.units.replace("$", "") == itx.variable.units.replace("$", ""),
                "agree:variable-metadata", nc=[inn.variable.name, inn.variable.units], text=[itx.variable.name, itx.variable.units])
    if ai.units == "%":
        ctx.require(inn.variable.units == "%" and itx.variable.units == "%", "agree:units-percent", nc=inn.variable.units, text=itx.variable.units)
    ctx.require(sorted(float(x) for x in inn.thresholds) == sorted(float(x) for x in itx.thresholds), "agree:thresholds")
    ctx.require(sorted(float(x) for x in inn.quantiles) == sorted(float(x) for x in itx.quantiles), "agree:quantiles")
    dn = H.quiet_call(verif.data.Data, [inn])
    dt = H.quiet_call(verif.data.Data, [itx])
    if dn[0] != "ok" or dt[0] != "ok":
        ctx.fail("agree:data-failed", nc=dn[0], text=dt[0])
        return
    dn, dt = dn[1], dt[1]
    ctx.require([float(x) for x in dn.times] == [float(x) for x in dt.times] and [float(x) for x in dn.leadtimes] == [float(x) for x in dt.leadtimes],
                "agree:dimensions")
    ctx.require([(l.id, l.lat, l.lon, l.elev) for l in dn.locations] == [(l.id, l.lat, l.lon, l.elev) for l in dt.locations], "agree:location-metadata",
                nc=[(l.id, l.lat, l.lon, l.elev) for l in dn.locations], text=[(l.id, l.lat, l.lon, l.elev) for l in dt.locations])
    ref = RD.RefData([ai])
    roles = [["obs", "fcst"], ["pit"], ["obs", ("p", 1.0), ("p", 5.0), ("p", 10.0)], [("q", 0.25), ("q", 0.5), ("q", 0.75)], [("e", 0), ("e", 1), ("e", 2)], [("o", "crps")]]
    CD.check_requests(ctx, dn, ref, roles, ["all", "no", "location"], "agree:nc")
    CD.check_requests(ctx, dt, ref, roles, ["all", "no", "location"], "agree:text")
    sig = []
    for name in METRICS:
        m = verif.metric.get(name)
        rt = m.require_threshold_type
        iv = verif.interval.Interval(0.25, 0.75, False, False) if rt == "quantile" else verif.interval.Interval(1.0, np.inf, False, False)
        for ax in ("leadtime", "location", "no"):
            a = H.quiet_call(m.compute, dn, 0, verif.axis.get(ax), iv)
            b = H.quiet_call(m.compute, dt, 0, verif.axis.get(ax), iv)
            if a[0] != "ok" or b[0] != "ok":
                ctx.fail("agree:metric-failed:%s" % name, nc=a[0], text=b[0])
                continue
            av, bv = np.asarray(a[1], dtype=float), np.asarray(b[1], dtype=float)
            same = av.shape == bv.shape and bool(np.all((av == bv) | (np.isnan(av) & np.isnan(bv))))
            ctx.require(same, "agree:scores-differ:%s" % name, axis=ax, nc=av.tolist(), text=bv.tolist())
            sig.append(tuple(np.round(np.nan_to_num(av, nan=-777.0), 9).tolist()))
    ctx.observe((tuple(sorted((f, pos) for f, pos in marks)), order, tuple(sig)))
    ctx.outcome("marks=%d" % len(marks))
    ctx.nontrivial()


NC_FORMATS = ("NETCDF4", "NETCDF3_CLASSIC", "NETCDF4_CLASSIC", "NETCDF3_64BIT_OFFSET", "NETCDF3_64BIT_DATA")   # all five on-disk flavours


def h_detect(ctx):
    import verif.input
    seed = core.seed()
    ai = dataset(seed)
    content = ctx.choose("content", ("nc", "text"), free=True)
    fname = ctx.choose("name", ("data.txt", "data.nc", "data", "data.nc4", "data.csv", "DATA.NC"), free=True)
    fmt = ctx.choose("nc-format", NC_FORMATS, free=True) if content == "nc" else None
    d = os.path.join(H.scratch(), "c10det%d" % os.getpid())
    os.makedirs(d, exist_ok=True)
    p = os.path.join(d, fname)
    if os.path.exists(p):
        os.remove(p)
    if content == "nc":
        gen.netcdf_file(ai, p, fmt=fmt)
    else:
        gen.text_file(ai, p)
    kind, inp, site, out = H.quiet_call(verif.input.get_input, p)
    if kind != "ok":
        ctx.fail("detect:%s:%s:%s" % (content, kind, site or "rejected"), name=fname, stdout=out[-200:])
        return
    want = "Netcdf" if content == "nc" else "Text"
    ctx.require(type(inp).__name__ == want, "detect:wrong-reader", name=fname, content=content, actual=type(inp).__name__)
    if content == "nc":
        compare_nc(ctx.fail, inp, ai, OPTIONAL, "detect")
    ctx.observe((content, fname, fmt))
    ctx.outcome(content)
    ctx.nontrivial(("nc" in fname.lower()) != (content == "nc"))


def h_text2nc(ctx):
    import netCDF4
    import verif.input
    seed = core.seed()
    present = [v for v in ("cdf", "x", "ensemble", "pit", "other") if ctx.choose_bool("has:" + v, free=True)]
    ai = dataset(seed, present + ["altitude", "location", "lat", "lon"])
    nmiss = ctx.choose("missing", (0, 1, 2), free=True)
    for j in range(nmiss):
        f = list(ai.fields)[(j * 3) % len(ai.fields)]
        ai.fields[f].pop(ai.positions()[j * 5 + 1], None)
    row_order = ctx.choose("row-order", ("natural", "reversed"), free=True)
    # the variable's discrete-mass boundaries declared in the text header (0 is the usual lower boundary of precipitation)
    ai.x0, ai.x1 = ctx.choose("x0-x1", ((None, None), (0.0, None), (None, 0.0), (0.0, 7.5), (2.5, None)), free=True)
    d = os.path.join(H.scratch(), "c10t2n")
    os.makedirs(d, exist_ok=True)
    pt = os.path.join(d, "t%d.txt" % os.getpid())
    pn = os.path.join(d, "t%d.nc" % os.getpid())
    if os.path.exists(pn):
        os.remove(pn)
    gen.text_file(ai, pt, row_order=ai.positions()[::-1] if row_order == "reversed" else None)
    script = os.path.join(core.REPO, "scripts", "text2nc.py")
    old = sys.argv

    def run():
        sys.argv = ["text2nc.py", pt, pn]
        try:
            runpy.run_path(script, run_name="__main__")
        finally:
            sys.argv = old
    kind, _, site, out = H.quiet_call(run)
    if kind != "ok":
        ctx.fail("text2nc:%s:%s" % (kind, site or ""), stdout=out[-200:])
        return
    ds = netCDF4.Dataset(pn)
    try:
        times = [float(x) for x in ds.variables["time"][:]]
        leads = [float(x) for x in ds.variables["leadtime"][:]]
        ids = [float(x) for x in ds.variables["location"][:]]
        ctx.require(times == sorted(ai.times) and leads == sorted(ai.leads), "text2nc:dimensions", times=times, leads=leads)
        meta = {float(i): (float(a), float(b), float(c)) for i, a, b, c in zip(ids, ds.variables["lat"][:], ds.variables["lon"][:], ds.variables["altitude"][:])}
        for l in ai.locs:
            ctx.require(float(l[0]) in meta and all(abs(x - y) < 1e-4 for x, y in zip(meta[float(l[0])], l[1:])), "text2nc:location-metadata", expected=l, actual=meta.get(float(l[0])))

        def check(name, arr):
            arr = np.ma.filled(np.ma.masked_invalid(np.asarray(arr[:], dtype=float)), np.nan)
            for ti, t in enumerate(times):
                for li, l in enumerate(leads):
                    for si, s in enumerate(ids):
                        e = ai.value_at(name, t, l, s)
                        g = float(arr[ti, li, si])
                        if g > 1e30 or g == -999:
                            g = float("nan")
                        if (e is None) != math.isnan(g) or (e is not None and abs(np.float32(e) - g) > 1e-6 * max(1, abs(e))):
                            ctx.fail("text2nc:value:%s" % gen.kind(name), field=name, time=t, leadtime=l, location=s, expected=e, actual=g)
                            return
        for f in ai.fields:
            k = gen.kind(f)
            if k in ("obs", "fcst"):
                check(f, ds.variables[f])
            elif k == "p":
                thr = [float(x) for x in ds.variables["threshold"][:]] if "threshold" in ds.variables else []
                if not ctx.require(any(abs(x - float(f[1:])) < 1e-6 for x in thr), "text2nc:field-not-carried:cdf", field=f):
                    continue
                j = [i for i, x in enumerate(thr) if abs(x - float(f[1:])) < 1e-6][0]
                check(f, ds.variables["cdf"][:, :, :, j])
            elif k == "q":
                qs = [float(x) for x in ds.variables["quantile"][:]] if "quantile" in ds.variables else []
                if not ctx.require(any(abs(x - float(f[1:])) < 1e-6 for x in qs), "text2nc:field-not-carried:quantile", field=f):
                    continue
                j = [i for i, x in enumerate(qs) if abs(x - float(f[1:])) < 1e-6][0]
                check(f, ds.variables["x"][:, :, :, j])
            elif k == "e":
                if not ctx.require("ensemble" in ds.variables, "text2nc:field-not-carried:ensemble", field=f):
                    continue
                check(f, ds.variables["ensemble"][:, :, :, int(f[1:])])
            elif k == "pit":
                if not ctx.require("pit" in ds.variables, "text2nc:field-not-carried:pit", field=f):
                    continue
                check(f, ds.variables["pit"])
            else:
                if not ctx.require(f in ds.variables, "text2nc:field-not-carried:other", field=f):
                    continue
                check(f, ds.variables[f])
    finally:
        ds.close()
    # and the converted file must be a valid verif input giving the same scores for what it carries
    kind2, inp2, site2, _ = H.quiet_call(verif.input.get_input, pn)
    ctx.require(kind2 == "ok" and type(inp2).__name__ == "Netcdf", "text2nc:output-not-a-valid-input", kind=kind2)
    kind1, inp1, _, _ = H.quiet_call(verif.input.get_input, pt)
    if kind1 == "ok" and kind2 == "ok":
        v1, v2 = inp1.variable, inp2.variable
        ctx.require(v1.x0 == ai.x0 and v1.x1 == ai.x1, "text2nc:text-reader-x0-x1", expected=[ai.x0, ai.x1], actual=[v1.x0, v1.x1])
        ctx.require((v2.x0, v2.x1) == (v1.x0, v1.x1), "text2nc:x0-x1-not-carried", expected=[v1.x0, v1.x1], actual=[v2.x0, v2.x1])
        ctx.require(v2.name == v1.name and v2.units.replace("$", "") == v1.units.replace("$", ""), "text2nc:variable-metadata-not-carried",
                    expected=[v1.name, v1.units], actual=[v2.name, v2.units])
    ctx.observe((tuple(present), nmiss, row_order, ai.x0, ai.x1))
    ctx.outcome("n=%d" % len(present))
    ctx.nontrivial()


def plan(tier):
    q = tier == "quick"
    return [("optional", h_optional, "full", None), ("encodings", h_encodings, "dev", 1 if q else 2), ("agree", h_agree, "dev", 1 if q else 2),
            ("detect", h_detect, "full", None), ("text2nc", h_text2nc, "full", None)]


def run(tier, only=None):
    subs = []
    for name, h, mode, k in plan(tier):
        if only and only != name:
            continue
        t0 = time.time()
        st = explore.explore(h, mode=mode, k=k, repo_root=core.REPO, time_cap=(300 if tier == "quick" else 3000))
        bound = {"optional": "full 2^9 subsets of optional variables x 2 time dtypes x attributes present/absent", "encodings": "dev(%s) over (field, cell) x 5 encodings" % k,
                 "agree": "dev(%s) over missing cells x 3 NetCDF encodings, x 2 text row orders" % k, "detect": "2 contents x 6 file names x 5 NetCDF on-disk formats (classic, 64-bit offset, CDF-5, NetCDF-4, NetCDF-4 classic)",
                 "text2nc": "2^5 field subsets x 3 missing-cell variants x 2 row orders x 5 x0/x1 declarations"}[name]
        subs.append(core.Sub.from_e1(name, st, bound=bound, rule="one execution = one file (pair); every dimension, metadata item and cell compared", wall=time.time() - t0))
    return subs


def replay(rec):
    for name, h, mode, k in plan("thorough"):
        if name == rec["subcheck"]:
            ctx, _ = explore.replay(h, rec["choices"], None, repo_root=core.REPO)
            return [v.locus for v in ctx.violations if v.locus == rec["signature"][1]]
    return []
