"""C07 - event definitions (-b) are the documented open/closed intervals.

Complete enumeration over order types: bin type (8) x threshold list (every sequence over three
threshold representatives of length 0..3, duplicates and non-increasing ones included: 40) x value
(below, =t1, between, =t2, between, =t3, above, NaN, -inf, +inf, and t_i -/+ a tiny epsilon) x form (python scalar, numpy
scalar, 1-d array, mixed 1-d array, 2-d array) x 3 strictly monotone embeddings of the
representatives.  Oracle: plain Python comparisons; all implementation sites must agree.
"""
import itertools
import math
import time

import numpy as np

from mc import core, explore
from mc import harness as H

PID = "C07"
LEVEL = "exploration"
TECHNIQUE = "bounded exhaustive enumeration (E1 choice-tree explorer, complete over order types) against a Python-comparison reference; all sites cross-checked"
ASSUMPTIONS = ["only the order relation of a value to the thresholds matters (validated by 3 monotone embeddings)",
               "0-d numpy arrays are not a supported input form of Interval.within"]

BIN_TYPES = ["below", "below=", "above", "above=", "within", "=within", "within=", "=within="]

EMBEDDINGS = [
    [0.5, 1.0, 1.5, 2.0, 2.5, 3.0, 3.5],
    [-7.0, -3.0, -2.5, 0.0, 0.125, 1024.0, 1.0e6],
    [0.001, 0.002, 0.0025, 0.25, 0.75, 0.875, 1.0],
]
# value classes: index into the embedding, or a special
VALUE_CLASSES = [("below", 0), ("=t1", 1), ("between12", 2), ("=t2", 3), ("between23", 4), ("=t3", 5),
                 ("above", 6), ("nan", "nan"), ("-inf", "-inf"), ("+inf", "+inf"),
                 # not equal to a threshold but within any plausible float tolerance of it
                 ("t1-eps", ("near", 1, -1)), ("t1+eps", ("near", 1, 1)), ("t2-eps", ("near", 3, -1)),
                 ("t2+eps", ("near", 3, 1)), ("t3-eps", ("near", 5, -1)), ("t3+eps", ("near", 5, 1))]
THRESHOLD_LISTS = [()] + [t for n in (1, 2, 3) for t in itertools.product((1, 3, 5), repeat=n)]  # 1+3+9+27 = 40
FORMS = ["pyfloat", "npfloat", "array1", "arraymixed", "array2d"]


def ref_event(bin_type, x, t, u=None):
    """The documented event as Python comparisons.  None = missing (belongs to no event)."""
    if isinstance(x, float) and math.isnan(x):
        return None
    if bin_type == "below":
        return x < t
    if bin_type == "below=":
        return x <= t
    if bin_type == "above":
        return x > t
    if bin_type == "above=":
        return x >= t
    if bin_type == "within":
        return t < x < u
    if bin_type == "=within":
        return t <= x < u
    if bin_type == "within=":
        return t < x <= u
    if bin_type == "=within=":
        return t <= x <= u
    raise ValueError(bin_type)


def events_for(bin_type, thresholds):
    """list of (t, u) pairs the bin type produces for a threshold list"""
    if "within" in bin_type:
        return [(thresholds[i], thresholds[i + 1]) for i in range(len(thresholds) - 1)]
    return [(t, None) for t in thresholds]


def member(res, idx=None):
    """Read one answer of an implementation: True / False / None(missing)."""
    v = res if idx is None else res[idx]
    if v is np.ma.masked:
        return None
    if isinstance(v, np.ma.MaskedArray) and v.ndim == 0 and bool(np.ma.getmaskarray(v)):
        return None
    try:
        if isinstance(v, (float, np.floating)) and math.isnan(float(v)):
            return None
    except TypeError:
        pass
    fv = float(v)
    if fv == 1.0:
        return True
    if fv == 0.0:
        return False
    return "non-binary:%r" % (v,)


def tri(b):
    return {True: "T", False: "F", None: "M"}.get(b, str(b))


def harness(ctx):
    import verif.interval
    import verif.util
    import verif.metric
    emb = ctx.choose("embedding", EMBEDDINGS, free=True)
    bin_type = ctx.choose("bin_type", BIN_TYPES, free=True)
    tl = ctx.choose("thresholds", THRESHOLD_LISTS, free=True)
    vclass = ctx.choose("value", VALUE_CLASSES, free=True)
    form = ctx.choose("form", FORMS, free=True)

    def val(c):
        if c == "nan":
            return float("nan")
        if c == "-inf":
            return float("-inf")
        if c == "+inf":
            return float("inf")
        if isinstance(c, tuple):
            t = emb[c[1]]
            return t + c[2] * (abs(t) * 1e-7 + 1e-9)
        return emb[c]

    thresholds = [emb[i] for i in tl]
    x = val(vclass[1])
    allvals = [val(c[1]) for c in VALUE_CLASSES]
    k = [c[0] for c in VALUE_CLASSES].index(vclass[0])
    if form == "pyfloat":
        X, positions = x, [(None, x)]
    elif form == "npfloat":
        X, positions = np.float64(x), [(None, x)]
    elif form == "array1":
        X, positions = np.array([x]), [(0, x)]
    elif form == "arraymixed":
        rolled = allvals[k:] + allvals[:k]
        X = np.array(rolled)
        positions = [(i, rolled[i]) for i in range(len(rolled))]
    else:
        rolled = allvals[k:] + allvals[:k]
        X = np.array(rolled).reshape(2, len(rolled) // 2)
        positions = [((i // (len(rolled) // 2), i % (len(rolled) // 2)), rolled[i]) for i in range(len(rolled))]
    ctx.note("case", {"bin_type": bin_type, "thresholds": thresholds, "value": vclass[0], "x": x, "form": form})
    evs = events_for(bin_type, thresholds)
    sig = []

    # ---- site A: get_intervals + Interval.within ------------------------------------------
    kind, intervals, site, _ = H.quiet_call(verif.util.get_intervals, bin_type, np.array(thresholds))
    if kind != "ok":
        ctx.fail("get_intervals:" + (site or kind), thresholds=thresholds, bin_type=bin_type)
        return
    if not ctx.require(len(intervals) == len(evs), "get_intervals:count", expected=len(evs), actual=len(intervals)):
        return
    within_answers = []
    for (t, u), iv in zip(evs, intervals):
        kind, res, site, _ = H.quiet_call(iv.within, X)
        if kind != "ok":
            ctx.fail("within:" + (site or kind), interval=str(iv), x=repr(X))
            within_answers.append(None)
            continue
        row = []
        for idx, xv in positions:
            exp = ref_event(bin_type, xv, t, u)
            got = member(res, idx)
            row.append(got)
            if got != exp:
                ctx.fail("within:%s:%s" % (bin_type, _class_of(xv, emb)), expected=tri(exp), actual=tri(got),
                         t=t, u=u, x=xv, form=form)
        within_answers.append(row)
        sig.append(tuple(row))
        # center
        if u is None:
            ctx.require(iv.center == t, "center:one-sided", expected=t, actual=iv.center)
        else:
            ctx.require(iv.center == (t + u) / 2, "center:two-sided", expected=(t + u) / 2, actual=iv.center)

    # ---- site B: util.apply_threshold (arrays only) -----------------------------------------
    if isinstance(X, np.ndarray):
        for j, (t, u) in enumerate(evs):
            Xc = X.copy()
            kind, res, site, _ = H.quiet_call(verif.util.apply_threshold, Xc, bin_type, t, u)
            if kind != "ok":
                ctx.fail("apply_threshold:" + (site or kind), bin_type=bin_type, t=t, u=u)
                continue
            ctx.require(_same_array(Xc, X), "apply_threshold:mutates-input")
            for pi, (idx, xv) in enumerate(positions):
                exp = ref_event(bin_type, xv, t, u)
                got = member(res, idx)
                if got != exp:
                    ctx.fail("apply_threshold:%s:%s" % (bin_type, _class_of(xv, emb)), expected=tri(exp),
                             actual=tri(got), t=t, u=u, x=xv)
                if within_answers[j] is not None and within_answers[j][pi] != got:
                    ctx.fail("sites-disagree:within-vs-apply_threshold:%s:%s" % (bin_type, _class_of(xv, emb)),
                             within=tri(within_answers[j][pi]), apply_threshold=tri(got), t=t, u=u, x=xv)

    # ---- site C: contingency table counts -----------------------------------------------------
    if form in ("arraymixed",) and evs:
        m = verif.metric.Ets()
        obs = np.array([p[1] for p in positions])
        for shift in (0, 1, 3):
            fc = np.roll(obs, shift)
            for (t, u), iv in zip(evs, intervals):
                kind, res, site, _ = H.quiet_call(m._compute_abcd, obs.copy(), fc.copy(), iv)
                if kind != "ok":
                    ctx.fail("abcd:" + (site or kind), bin_type=bin_type)
                    continue
                ea = eb = ec = ed = 0
                for o, f in zip(obs.tolist(), fc.tolist()):
                    eo, ef = ref_event(bin_type, o, t, u), ref_event(bin_type, f, t, u)
                    if eo is None or ef is None:
                        continue
                    ea += (ef and eo)
                    eb += (ef and not eo)
                    ec += ((not ef) and eo)
                    ed += ((not ef) and (not eo))
                got = [int(v) if v is not np.ma.masked and not (isinstance(v, float) and math.isnan(v)) else None
                       for v in res]
                if got != [ea, eb, ec, ed]:
                    ctx.fail("abcd:%s" % bin_type, expected=[ea, eb, ec, ed], actual=got, t=t, u=u, shift=shift,
                             obs=obs.tolist())
                sig.append(tuple(got))

    # ---- site C2: conditional means / counts select the members with np.where(interval.within(x)) -----------------
    if form in ("arraymixed",) and evs:
        cm = verif.metric.Conditional(func=np.sum)
        xm = verif.metric.XConditional(func=len)
        xs = np.array([p[1] for p in positions])
        for (t, u), iv in zip(evs, intervals):
            exp_n = sum(1 for xv in xs.tolist() if ref_event(bin_type, xv, t, u) is True)
            for label, mm, arg2 in (("conditional", cm, np.ones(len(xs))), ("xconditional", xm, np.ones(len(xs)))):
                kind, res, site, _ = H.quiet_call(mm.compute_from_obs_fcst, xs.copy(), arg2, iv)
                if kind != "ok":
                    ctx.fail("%s:%s" % (label, site or kind), bin_type=bin_type)
                    continue
                got_n = 0 if (isinstance(res, float) and math.isnan(res)) else int(res)
                if got_n != exp_n:
                    ctx.fail("%s:members:%s" % (label, bin_type), expected=exp_n, actual=got_n, t=t, u=u, x=xs.tolist())

    # ---- site D: event probability from the CDF ---------------------------------------------
    if form == "array1" and evs and not (isinstance(x, float) and math.isnan(x)):
        sample = [v for v in emb]       # the 7 finite representatives: an empirical distribution

        def F(t):
            return sum(1 for s in sample if s <= t) / float(len(sample))
        for (t, u) in evs:
            lower = np.array([F(t)])
            upper = None if u is None else np.array([F(u)])
            kind, res, site, _ = H.quiet_call(verif.util.apply_threshold_prob, lower, bin_type, upper)
            if kind != "ok":
                ctx.fail("apply_threshold_prob:" + (site or kind), bin_type=bin_type)
                continue
            if bin_type in ("below", "below="):
                exp = F(t)
            elif bin_type in ("above", "above="):
                exp = 1 - F(t)
            else:
                exp = F(u) - F(t)
            ctx.require(abs(float(res[0]) - exp) < 1e-12, "apply_threshold_prob:%s" % bin_type,
                        expected=exp, actual=float(res[0]), t=t, u=u)
            # for the bin types a CDF can express exactly the probability is the event frequency
            if bin_type in ("below=", "above", "within=") and (u is None or t <= u):
                freq = sum(1 for s in sample if ref_event(bin_type, s, t, u)) / float(len(sample))
                ctx.require(abs(float(res[0]) - freq) < 1e-12, "apply_threshold_prob:frequency:%s" % bin_type,
                            expected=freq, actual=float(res[0]))

    # ---- site E: get_p on a Data object (stored CDF values at the three representatives) -------------
    if form == "arraymixed" and k == 0 and evs:
        ctx.flag("get_p")
        data, finite_vals, cdf = _data_for(emb)
        import verif.axis
        for (t, u), iv in zip(evs, intervals):
            if u is not None and not t <= u:
                continue
            for ti, ov in enumerate(finite_vals):
                kind, res, site, _ = H.quiet_call(verif.metric.get_p, data, 0, verif.axis.Time(), ti, iv)
                if kind != "ok":
                    ctx.fail("get_p:" + (site or kind), bin_type=bin_type, t=t, u=u)
                    break
                obsP, pr = [np.asarray(np.ma.filled(np.ma.asarray(r, dtype=float), np.nan), dtype=float).reshape(-1) for r in res]
                eo = ref_event(bin_type, ov, t, u)
                if eo is None:
                    ctx.require(len(obsP) == 1 and math.isnan(obsP[0]), "get_p:missing-obs-is-an-event", actual=obsP.tolist(), t=t, u=u)
                    continue
                if bin_type in ("below", "below="):
                    ep = cdf[t][ti]
                elif bin_type in ("above", "above="):
                    ep = 1 - cdf[t][ti]
                else:
                    ep = cdf[u][ti] - cdf[t][ti]
                if not (len(obsP) == 1 and obsP[0] == float(eo)):
                    ctx.fail("get_p:observed-event:%s" % bin_type, expected=float(eo), actual=obsP.tolist(), obs=ov, t=t, u=u)
                if not (len(pr) == 1 and abs(pr[0] - ep) < 1e-12):
                    ctx.fail("get_p:probability:%s" % bin_type, expected=ep, actual=pr.tolist(), t=t, u=u)
                sig.append((ti, float(eo)))

    # ---- relations ----------------------------------------------------------------------------
    inc = all(thresholds[i] < thresholds[i + 1] for i in range(len(thresholds) - 1))
    if bin_type == "within=" and inc and len(thresholds) >= 2 and all(w is not None for w in within_answers):
        ctx.flag("partition")
        for pi, (idx, xv) in enumerate(positions):
            if isinstance(xv, float) and math.isnan(xv):
                continue
            cnt = sum(1 for w in within_answers if w[pi] is True)
            exp = 1 if thresholds[0] < xv <= thresholds[-1] else 0
            ctx.require(cnt == exp, "relation:within=-partition:%s" % _class_of(xv, emb), expected=exp, actual=cnt,
                        x=xv, thresholds=thresholds)
    if bin_type == "above" and thresholds:
        ctx.flag("complement")
        kind2, ivs2, _, _ = H.quiet_call(verif.util.get_intervals, "below=", np.array(thresholds))
        if kind2 == "ok":
            for j, iv in enumerate(ivs2):
                k2, r2, _, _ = H.quiet_call(iv.within, X)
                if k2 != "ok" or within_answers[j] is None:
                    continue
                for pi, (idx, xv) in enumerate(positions):
                    a, b = within_answers[j][pi], member(r2, idx)
                    if isinstance(xv, float) and math.isnan(xv):
                        ctx.require(a is None and b is None, "relation:missing-in-no-event")
                    else:
                        ctx.require(a is not None and b is not None and a != b,
                                    "relation:above-complement-of-below=:%s" % _class_of(xv, emb),
                                    above=tri(a), below_eq=tri(b), x=xv, t=thresholds[j])
    ctx.observe((bin_type, tl, vclass[0], form, tuple(sig)))
    ctx.outcome("events=%d" % len(evs))
    ctx.nontrivial(len(evs) > 0)

_DATA = {}


def _data_for(emb):
    """One-location, one-lead-time Data whose observation at time i is the i-th finite value class (+ one missing) and
    which stores a CDF value for each of the three threshold representatives (distinct per time and threshold)."""
    key = tuple(emb)
    if key not in _DATA:
        import verif.data
        from mc import gen
        vals = []
        for c in VALUE_CLASSES:
            c = c[1]
            if c in ("-inf", "+inf"):
                continue
            if c == "nan":
                vals.append(float("nan"))
            elif isinstance(c, tuple):
                t = emb[c[1]]
                vals.append(t + c[2] * (abs(t) * 1e-7 + 1e-9))
            else:
                vals.append(emb[c])
        T0 = 1330387200
        ai = gen.AInput("A", [T0 + 86400 * i for i in range(len(vals))], [0.0], [(1, 50.0, 10.0, 5.0)])
        ai.fields["obs"] = {(i, 0, 0): v for i, v in enumerate(vals)}
        ai.fields["fcst"] = {(i, 0, 0): 1.0 for i, v in enumerate(vals)}
        cdf = {}
        for j, ti in enumerate((1, 3, 5)):
            t = emb[ti]
            cdf[t] = [0.125 + 0.25 * j + i / 256.0 for i in range(len(vals))]
            ai.fields["p" + repr(float(t))] = {(i, 0, 0): cdf[t][i] for i in range(len(vals))}
        _DATA[key] = (verif.data.Data([gen.mem_input(ai)]), vals, cdf)
    return _DATA[key]


def _class_of(xv, emb):
    if isinstance(xv, float) and math.isnan(xv):
        return "nan"
    if xv == float("inf"):
        return "+inf"
    if xv == float("-inf"):
        return "-inf"
    return "finite"


def _same_array(a, b):
    return a.shape == b.shape and bool(np.all((a == b) | (np.isnan(a) & np.isnan(b))))


# ---- histogram and frequency counts through the driver ---------------------------------------------------------------------
HIST_LISTS = [(1,), (3,), (5,), (1, 3), (3, 5), (1, 5), (1, 3, 5)]


def h_hist(ctx):
    """`-m obs -hist -b <type> -r <thresholds>`: the drawn percentages are the event counts of the documented intervals.  The
    file holds every finite value class (below, =t1, between, =t2, between, =t3, above) with its own multiplicity 1..7."""
    import os
    import matplotlib.pyplot as mpl
    from mc import gen
    emb = ctx.choose("embedding", EMBEDDINGS[:1] + EMBEDDINGS[2:], free=True)
    bin_type = ctx.choose("bin_type", BIN_TYPES, free=True)
    tl = ctx.choose("thresholds", [t for t in HIST_LISTS if len(t) >= (2 if "within" in bin_type else 1)], free=True)
    thresholds = [emb[i] for i in tl]
    vals = []
    for k in range(7):
        vals += [emb[k]] * (k + 1)
    T0 = 1330387200
    ai = gen.AInput("A", [T0 + 86400 * i for i in range(len(vals))], [0.0], [(1, 50.0, 10.0, 5.0)])
    ai.fields["obs"] = {(i, 0, 0): v for i, v in enumerate(vals)}
    ai.fields["fcst"] = {(i, 0, 0): vals[-1 - i] for i in range(len(vals))}
    d = os.path.join(H.scratch(), "c07hist")
    os.makedirs(d, exist_ok=True)
    path = gen.text_file(ai, os.path.join(d, "A%d.txt" % EMBEDDINGS.index(emb)))
    out = os.path.join(d, "h%d.png" % os.getpid())
    evs = events_for(bin_type, thresholds)
    counts = [sum(1 for v in vals if ref_event(bin_type, v, t, u)) for (t, u) in evs]
    for field, fvals in (("obs", vals), ("fcst", vals[::-1])):
        argv = [path, "-m", field, "-hist", "-b", bin_type, "-r", ",".join(gen.fmt_num(t) for t in thresholds), "-f", out]
        r = H.run_cli(argv)
        if r.kind != "ok":
            ctx.fail("hist:%s:%s" % (r.kind, r.site or "rejected"), bin_type=bin_type, thresholds=thresholds)
            continue
        lines = [l for ax in mpl.gcf().axes for l in ax.get_lines() if len(l.get_xdata()) == len(evs)]
        if not ctx.require(len(lines) >= 1, "hist:no-series", bin_type=bin_type):
            continue
        gx = [float(v) for v in lines[0].get_xdata()]
        gy = [float(v) for v in lines[0].get_ydata()]
        tot = float(sum(counts))
        ey = [100.0 * c / tot if tot else float("nan") for c in counts]
        ex = [t if u is None else (t + u) / 2.0 for (t, u) in evs]
        ok = all(abs(a - b) < 1e-9 for a, b in zip(gx, ex)) and all((math.isnan(a) and math.isnan(b)) or abs(a - b) < 1e-9 for a, b in zip(gy, ey))
        ctx.require(ok, "hist:%s" % bin_type, field=field, thresholds=thresholds, expected=list(zip(ex, ey)), actual=list(zip(gx, gy)))
    ctx.observe((bin_type, tl, tuple(counts)))
    ctx.outcome("events=%d" % len(evs))
    ctx.nontrivial(sum(counts) > 0)


# ------------------------------------------------------------------------------------------------
SUBS = {"sites": harness}


def run(tier, only=None):
    subs = []
    if only in (None, "hist"):
        t0 = time.time()
        st = explore.explore(h_hist, mode="full", repo_root=core.REPO, time_cap=600)
        subs.append(core.Sub.from_e1(
            "hist", st, bound="full product 2 embeddings x 8 bin types x the increasing threshold lists over three representatives, -hist of obs and fcst through the driver",
            rule="one execution = two histograms of a file that holds every finite value class with its own multiplicity; non-trivial = at least one case is in a bin",
            wall=time.time() - t0))
    if only not in (None, "sites"):
        return subs
    t0 = time.time()
    st = explore.explore(harness, mode="full", repo_root=core.REPO)
    subs.append(core.Sub.from_e1(
        "sites", st, bound="full product 3 embeddings x 8 bin types x 40 threshold lists x 16 value classes x 5 forms",
        rule="one execution per (embedding, bin type, threshold list, value class, form); non-trivial = at least one event "
             "is defined by the threshold list; distinct = distinct (case, answer-vector) observations",
        required_flags=("partition", "complement", "get_p"), wall=time.time() - t0))
    return subs


def replay(rec):
    ctx, _ = explore.replay(h_hist if rec.get("subcheck") == "hist" else harness, rec["choices"], rec.get("labels"), repo_root=core.REPO)
    want = rec["signature"][1]
    return [v.locus for v in ctx.violations if v.locus == want]
