"""Shared pieces of the dataset-level harnesses (C01-C04, C11, C14, C15, C18)."""
import os

import numpy as np

from mc import core, gen
from mc import harness as H
from mc.ref import dataset as RD


def build_inputs(ainputs, via="mem", subdir="d", nc_kw=None, text_kw=None):
    """AInputs -> fresh verif Input objects via in-memory objects, text files or NetCDF files."""
    import verif.input
    out = []
    for k, ai in enumerate(ainputs):
        if ai is None:
            out.append(None)
            continue
        if via == "mem":
            out.append(gen.mem_input(ai))
        else:
            d = os.path.join(H.scratch(), subdir)
            os.makedirs(d, exist_ok=True)
            if via == "text":
                p = os.path.join(d, "%s_%d.txt" % (ai.name, k))
                gen.text_file(ai, p, **(text_kw or {}))
                out.append(verif.input.Text(p))
            elif via == "nc":
                p = os.path.join(d, "%s_%d.nc" % (ai.name, k))
                gen.netcdf_file(ai, p, **(nc_kw or {}))
                out.append(verif.input.Netcdf(p))
            else:
                raise ValueError(via)
    return out


def make_data(ainputs, aclim=None, via="mem", clim_type="subtract", subdir="d", **kw):
    """returns (kind, Data|exc, site, stdout): kind 'ok' | 'exit' | 'crash'"""
    import verif.data
    ins = build_inputs(list(ainputs) + [aclim], via=via, subdir=subdir)
    inputs, clim = ins[:-1], ins[-1]
    args = dict(kw)
    if clim is not None:
        args["clim"] = clim
        args["clim_type"] = clim_type
    return H.quiet_call(verif.data.Data, inputs, **args)


def get_scores(data, roles, i, axis, index, single=False):
    fields = [RD.to_field(r) for r in roles]
    arg = fields[0] if single else fields
    return H.quiet_call(data.get_scores, arg, i, RD.to_axis(axis), index)


def compare_all(arrs, ref, roles, i, rtol=2e-6):
    """whole-array (axis All) answer against the reference, positionally.  Returns None or a message."""
    exp = ref.request_all(list(roles), i)
    T, L, S = len(ref.T), len(ref.L), len(ref.S)
    for a in arrs:
        if tuple(np.shape(a)) != (T, L, S):
            return "shape %r, expected %r" % (tuple(np.shape(a)), (T, L, S))
    for ci, case in enumerate(ref.cases()):
        idx = (ci // (L * S), ci // S % L, ci % S)
        e_t = exp[case]
        for k, a in enumerate(arrs):
            v = float(a[idx])
            if e_t is None:
                if not np.isnan(v):
                    return "case %r: field %r should be missing, got %r" % (case, roles[k], v)
            else:
                if not (v == e_t[k] or abs(v - e_t[k]) <= rtol * max(1.0, abs(v), abs(e_t[k]))):
                    return "case %r: field %r expected %r got %r" % (case, roles[k], e_t[k], v)
    return None


def axis_slices(ref, axes):
    out = []
    for ax in axes:
        if ax == "all":
            out.append(("all", None))
        else:
            for k in range(len(ref.axis_values(ax))):
                out.append((ax, k))
    return out


def check_requests(ctx, data, ref, role_sets, axes, tag, inputs=None, rtol=2e-6, obs=None):
    """Run every (role set, input, axis slice) request on the real Data and compare with the reference.
    Returns a signature tuple of what was observed (for distinct counting)."""
    sig = []
    n_in = ref.n if inputs is None else inputs
    slices = axis_slices(ref, axes)
    for roles in role_sets:
        for i in range(n_in):
            for (ax, k) in slices:
                kind, res, site, _ = get_scores(data, roles, i, ax, k)
                if kind != "ok":
                    ctx.fail("%s:request-%s:%s" % (tag, kind, site or ""), roles=roles, input=i, axis=ax, index=k)
                    continue
                if ax == "all":
                    msg = compare_all(list(res), ref, roles, i, rtol)
                    if msg is not None:
                        ctx.fail("%s:all:%s" % (tag, _rolesig(roles)), roles=roles, input=i, message=msg)
                    sig.append(("all", i, len([c for c, v in ref.request_all(list(roles), i).items() if v is not None])))
                else:
                    exp = ref.request(list(roles), i, ax, k)
                    got = RD.impl_rows(res)
                    if not RD.rows_equal(exp, got, rtol):
                        ctx.fail("%s:slice:%s:%s" % (tag, _rolesig(roles), ax), roles=roles, input=i, axis=ax, index=k,
                                 expected=exp, actual=got)
                    sig.append((ax, k, i, len(exp)))
    return tuple(sig)


def _rolesig(roles):
    return "+".join(r if isinstance(r, str) else "%s%s" % (r[0], gen.fmt_num(r[1]) if not isinstance(r[1], str) else r[1]) for r in roles)


rolesig = _rolesig


# ---- CSV parsing -------------------------------------------------------------------------------------
def parse_csv(stdout):
    """(header list, rows as lists of strings); warning lines are dropped"""
    lines = [l for l in stdout.split("\n") if l.strip() and not l.startswith("Warning")]
    if not lines:
        return None, []
    return lines[0].split(","), [l.split(",") for l in lines[1:]]


def fmt_g(v):
    return "%g" % v


def close_printed(expected, text, digits=6, abs_tol=0.0):
    """does the printed number equal the reference rounded to `digits` significant digits
    (either neighbour in the last printed digit accepted)?  abs_tol: absolute slack for scores that are small differences of
    single-precision data (the program holds its arrays in float32)"""
    import math
    try:
        got = float(text)
    except ValueError:
        return False
    if expected is None or (isinstance(expected, float) and math.isnan(expected)):
        return math.isnan(got)
    if math.isnan(got):
        return False
    if math.isinf(expected) or math.isinf(got):
        return expected == got
    if expected == got or abs(expected - got) <= max(1e-12, abs_tol):
        return True
    mag = max(abs(expected), abs(got))
    if mag == 0:
        return True
    ulp = 10 ** (math.floor(math.log10(mag)) - digits + 1)
    return abs(expected - got) <= 1.01 * ulp
