"""C02 - values are matched by coordinates, not by position or file order.

 rows      all 8! row orders of an 8-row text file (and all 6! of a sparse 6-row one), other input fixed in
           a different order, observations that DIFFER between the files
 dims      all permutations of the entries of every dimension (3!*2!*3! = 72 per input, 72^2 for two),
           inputs with extra entries the other lacks, in-memory and NetCDF, combined with -d / -tod / -t
 repeat    a repeated dimension value (first occurrence must win)
 order     all N! command-line orders of N<=3 text files: the csv is the column-permuted csv
 columns   all permutations of the text header's columns
Oracle: mc/ref/dataset.py looks every value up by its coordinates in the file that stores it.
"""
import itertools
import os
import time

import numpy as np

from mc import core, explore, gen
from mc import harness as H
from mc.ref import dataset as RD
from mc.ref import calendar as cal
from checks import common_data as CD

PID = "C02"
LEVEL = "exploration"
TECHNIQUE = "bounded exhaustive enumeration (E1): all row / dimension-entry / column / file-order permutations of small datasets on the real readers, Data object and CLI, compared with a coordinate-keyed reference model"
ASSUMPTIONS = ["automatic default thresholds are derived from the first file by design and are not part of this check (explicit -r is used)"]

DAY = 86400
T0 = 1330387200      # 2012-02-28 00 UTC
PERMS = {n: list(itertools.permutations(range(n))) for n in (2, 3, 4)}


def scrambled(ai, names, values, key_salt):
    """distinct value in every cell, keyed by coordinate VALUES (so a permuted file stores the same data)"""
    for fi, n in enumerate(names):
        d = {}
        for pos in ai.positions():
            t, l, s = ai.times[pos[0]], ai.leads[pos[1]], ai.locs[pos[2]][0]
            k = (int(t // 3600) * 7 + int(l) * 13 + int(s) * 29 + fi * 31 + key_salt * 17) % len(values)      # injective enough on the small grids used
            d[pos] = values[k]
        ai.fields[n] = d


def base_pair(seed, near=False):
    """A has an extra time, B an extra location and an extra lead time; observations differ between files.
    near=True: coordinates that differ by less than any plausible relative tolerance (hourly runs, 7-digit station ids)"""
    locs = gen.std_locs(4, seed)
    tA = [T0, T0 + 6 * 3600, T0 + DAY, T0 + 2 * DAY]
    tB = [T0, T0 + 6 * 3600, T0 + DAY]
    if near:
        locs = [(1000231 + k, l[1], l[2], l[3]) for k, l in enumerate(locs)]
        tA = [T0, T0 + 3600, T0 + 7200, T0 + 10800]
        tB = [T0, T0 + 3600, T0 + 7200]
    lA = [0.0, 6.0]
    lB = [0.0, 6.0, 12.0]
    sA = locs[:3]
    sB = locs[:4]
    return (tA, lA, sA), (tB, lB, sB)


VALUES = None


def values(seed):
    global VALUES
    if VALUES is None or VALUES[0] != seed:
        v = gen.unique_values(seed, 211)
        VALUES = (seed, v)
    return VALUES[1]


def permute(seq, perm):
    return [seq[i] for i in perm] + list(seq[len(perm):])


# ------------------------------------------------------------------------------------------------------
def h_dims(ctx):
    seed = core.seed()
    via = ctx.params["via"]
    (tA, lA, sA), (tB, lB, sB) = base_pair(seed, near=bool(ctx.params.get("near")))
    inputs = []
    differ = False
    natural_tl = True
    for name, (t, l, s), salt in (("A", (tA, lA, sA), 1), ("B", (tB, lB, sB), 2)):
        pt = ctx.choose("perm-times:%s" % name, PERMS[3], free=True)
        pl = ctx.choose("perm-leads:%s" % name, PERMS[2], free=True)
        ps = ctx.choose("perm-locs:%s" % name, PERMS[3], free=True)
        natural_tl = natural_tl and pt == PERMS[3][0] and pl == PERMS[2][0]
        ai = gen.AInput(name, permute(t, pt), permute(l, pl), permute(s, ps))
        scrambled(ai, ["obs", "fcst"] if not (name == "B" and ctx.params.get("b_no_obs")) else ["fcst"], values(seed), salt)
        inputs.append(ai)
    A, B = inputs
    differ = (A.times[:3] != B.times[:3]) or (A.leads[:2] != B.leads[:2]) or ([x[0] for x in A.locs[:3]] != [x[0] for x in B.locs[:3]])
    opt = ctx.choose("subset-option", ctx.params["options"], free=True)
    kw = {}
    if opt == "dates":
        kw["dates"] = [cal.unixtime_to_date(T0)]
    elif opt == "tods":
        kw["tods"] = [0]
    elif opt == "times":
        kw["times"] = [tB[2], tB[0]]
    elif opt == "tods6":
        kw["tods"] = [6]
    if ctx.params.get("near") and opt == "tods6":
        kw["tods"] = [1]
    if opt in ("lat+elev", "l+elev", "lon+elev"):
        # two location filters together: each is defined on coordinates, so the selection cannot depend on the order in
        # which the first file lists its locations (only the location permutations matter here: the others are skipped)
        if not natural_tl:
            ctx.outcome("opt=%s:skipped" % opt)
            return
        locs4 = sB
        kw["elev_range"] = [locs4[0][3] - 1, locs4[1][3] + 1]           # the two lowest stations
        if opt == "lat+elev":
            kw["lat_range"] = [locs4[1][1] - 0.1, locs4[3][1] + 0.1]    # all but the southernmost -> station 1
        elif opt == "lon+elev":
            kw["lon_range"] = [locs4[1][2] - 0.1, locs4[3][2] + 0.1]
        else:
            kw["locations"] = [locs4[2][0], locs4[0][0]]                # -> station 0
    ref = RD.RefData(inputs, **kw)
    kind, data, site, out = CD.make_data(inputs, via=via, subdir="c02dims", **kw)
    if kind != "ok":
        ctx.fail("data-%s:%s" % (kind, site), stdout=out[-200:])
        return
    ctx.require([float(x) for x in data.times] == [float(x) for x in ref.T], "dims:times", expected=ref.T, actual=[float(x) for x in data.times])
    ctx.require([float(x) for x in data.leadtimes] == ref.L, "dims:leadtimes", expected=ref.L, actual=[float(x) for x in data.leadtimes])
    ctx.require([x.id for x in data.locations] == ref.S, "dims:locations", expected=ref.S, actual=[x.id for x in data.locations])
    meta = [(x.id, x.lat, x.lon, x.elev) for x in data.locations]
    ctx.require(meta == [tuple(m) for m in ref.locmeta], "dims:location-metadata", expected=ref.locmeta, actual=meta)
    sig = CD.check_requests(ctx, data, ref, [["obs", "fcst"], ["fcst"], ["obs"]], ["all", "no", "time", "leadtime", "location"], "dims")
    ctx.observe(sig)
    ctx.outcome("opt=%s" % opt)
    if differ:
        ctx.flag("orders-differ")
    ctx.nontrivial(differ)


# ------------------------------------------------------------------------------------------------------
_ROWPERMS = {}


def rowperms(n):
    if n not in _ROWPERMS:
        _ROWPERMS[n] = list(itertools.permutations(range(n)))
    return _ROWPERMS[n]


def h_rows(ctx):
    seed = core.seed()
    sparse = ctx.params["sparse"]
    locs = gen.std_locs(2, seed)
    t = [T0, T0 + DAY]
    l = [0.0, 6.0]
    A = gen.AInput("A", t, l, locs)
    B = gen.AInput("B", t[::-1], l[::-1], locs[::-1])
    scrambled(A, ["obs", "fcst", "p1", "e0"], values(seed), 3)
    scrambled(B, ["obs", "fcst", "p1", "e0"], values(seed), 4)
    pos = A.positions()
    if sparse:
        # two coordinate combinations are absent from the file altogether
        pos = [p for p in pos if p not in ((0, 1, 1), (1, 0, 0))]
        for f in A.fields:
            for p in ((0, 1, 1), (1, 0, 0)):
                del A.fields[f][p]
    perm = ctx.choose("row-order", rowperms(len(pos)), free=True)
    order = [pos[i] for i in perm]
    d = os.path.join(H.scratch(), "c02rows")
    os.makedirs(d, exist_ok=True)
    pa = gen.text_file(A, os.path.join(d, "A.txt"), row_order=order)
    if ctx.params.get("jitter"):
        # rows of one station carry latitudes / longitudes that differ in the sixth decimal (merged from two sources; below the
        # reader's 'conflicting information' threshold): they are still rows of that station, in any row order
        lines = open(pa).read().split("\n")
        hdr = [i for i, ln in enumerate(lines) if ln and not ln.startswith("#")][0]
        cols = lines[hdr].split()
        ilat, ilon = cols.index("lat"), cols.index("lon")
        n_ = 0
        for i in range(hdr + 1, len(lines)):
            w = lines[i].split()
            if len(w) == len(cols):
                if n_ % 2:
                    w[ilat] = "%.6f" % (float(w[ilat]) + 1e-6)
                    w[ilon] = "%.6f" % (float(w[ilon]) - 1e-6)
                n_ += 1
                lines[i] = " ".join(w)
        open(pa, "w").write("\n".join(lines))
    if not os.path.exists(os.path.join(d, "B.txt")):
        gen.text_file(B, os.path.join(d, "B.txt"), row_order=B.positions()[::-1])
    pb = os.path.join(d, "B.txt")
    import verif.input
    import verif.data
    kind, data, site, out = H.quiet_call(lambda: verif.data.Data([verif.input.Text(pa), verif.input.Text(pb)]))
    if kind != "ok":
        ctx.fail("data-%s:%s" % (kind, site), stdout=out[-200:])
        return
    ref = ctx.params.get("_ref")
    ref = RD.RefData([A, B])
    P1 = ("p", 1.0)
    sig = CD.check_requests(ctx, data, ref, [["obs", "fcst"], ["fcst", P1], [("e", 0)]], ["all", "no", "location"], "rows")
    ctx.observe((perm[:3], sig))
    ctx.outcome("ok")
    ctx.flag("orders-differ")
    ctx.nontrivial(list(perm) != sorted(perm))


# ------------------------------------------------------------------------------------------------------
def h_repeat(ctx):
    """a dimension value listed twice: the first occurrence is used (as the program's warning announces)"""
    seed = core.seed()
    via = ctx.params["via"]
    locs = gen.std_locs(3, seed)
    t = [T0, T0 + DAY, T0 + 2 * DAY]
    l = [0.0, 6.0]
    dim = ctx.choose("repeated-dim", ("time", "leadtime", "location"), free=True)
    which = ctx.choose("repeated-entry", (0, 1), free=True)
    where = ctx.choose("insert-at", ("end", "middle"), free=True)
    inp = ctx.choose("in-input", ("A", "B"), free=True)
    tt, ll, ss = list(t), list(l), list(locs)
    seq = {"time": tt, "leadtime": ll, "location": ss}[dim]
    entry = seq[which]
    if where == "end":
        seq.append(entry)
    else:
        seq.insert(which + 1 if which + 1 < len(seq) else len(seq), entry)
        if seq.index(entry) != which:
            pass
    A = gen.AInput("A", tt if inp == "A" else t, ll if inp == "A" else l, ss if inp == "A" else locs)
    B = gen.AInput("B", (tt if inp == "B" else t)[::-1], ll if inp == "B" else l, (ss if inp == "B" else locs))
    vals = values(seed)
    # position-keyed values here: the duplicate entry must hold DIFFERENT numbers than the first occurrence
    for ai, off in ((A, 0), (B, 97)):
        for fi, n in enumerate(["obs", "fcst"]):
            ai.fields[n] = {pos: vals[(off + fi * 41 + k * 3) % len(vals)] for k, pos in enumerate(ai.positions())}
    ref = RD.RefData([A, B])
    kind, data, site, out = CD.make_data([A, B], via=via, subdir="c02rep")
    if kind != "ok":
        ctx.fail("data-%s:%s" % (kind, site), stdout=out[-200:])
        return
    ctx.require("repeated values" in out, "repeat:no-warning", stdout=out[-200:])
    ctx.require([float(x) for x in data.times] == [float(x) for x in ref.T], "repeat:times", expected=ref.T, actual=[float(x) for x in data.times])
    ctx.require([x.id for x in data.locations] == ref.S, "repeat:locations", expected=ref.S, actual=[x.id for x in data.locations])
    sig = CD.check_requests(ctx, data, ref, [["obs", "fcst"], ["fcst"]], ["all", "no", "time", "leadtime", "location"], "repeat")
    ctx.observe((dim, which, where, inp, sig))
    ctx.outcome(dim)
    ctx.nontrivial()


# ------------------------------------------------------------------------------------------------------
def mean(xs):
    return sum(xs) / len(xs) if xs else float("nan")


def expected_column(ref, metric, i, ax, thr=None):
    out = []
    for k in range(len(ref.axis_values(ax))):
        if metric == "mae":
            out.append(mean([abs(o - f) for o, f in ref.request(["obs", "fcst"], i, ax, k)]))
        elif metric == "obs":
            out.append(mean([o for (o,) in ref.request(["obs"], i, ax, k)]))
        elif metric == "bias":
            out.append(mean([f - o for o, f in ref.request(["obs", "fcst"], i, ax, k)]))
        elif metric == "hit":
            pairs = ref.request(["obs", "fcst"], i, ax, k)
            a = sum(1 for o, f in pairs if o > thr and f > thr)
            c = sum(1 for o, f in pairs if o > thr and not f > thr)
            out.append(a / float(a + c) if a + c else float("nan"))
    return out


def h_order(ctx):
    seed = core.seed()
    n = ctx.params["n"]
    locs = gen.std_locs(3, seed)
    t = [T0, T0 + DAY, T0 + 2 * DAY]
    l = [0.0, 6.0, 12.0]
    inputs = []
    for k in range(n):
        name = "F%d" % k
        # different orders, different extra entries
        tt = (t + [T0 + (3 + k) * DAY])
        tt = tt[k:] + tt[:k]
        ss = locs[::-1] if k % 2 else locs
        ai = gen.AInput(name, tt, l[::-1] if k == 1 else l, ss)
        scrambled(ai, ["obs", "fcst"], values(seed), 10 + k)
        if k == 2:
            del ai.fields["fcst"][ai.positions()[1]]
        inputs.append(ai)
    order = ctx.choose("file-order", PERMS[n] if n in PERMS else [tuple(range(n))], free=True)
    metric = ctx.choose("metric", ("mae", "obs", "bias", "hit"), free=True)
    ax = ctx.choose("axis", ("leadtime", "location", "time", "no"), free=True)
    d = os.path.join(H.scratch(), "c02order%d" % n)
    os.makedirs(d, exist_ok=True)
    paths = []
    for ai in inputs:
        p = os.path.join(d, ai.name + ".txt")
        if not os.path.exists(p):
            gen.text_file(ai, p, row_order=ai.positions()[::-1] if ai.name == "F1" else None)
        paths.append(p)
    thr = sorted(values(seed))[len(values(seed)) // 2]
    argv = [paths[i] for i in order] + ["-m", metric, "-x", ax, "-type", "csv"]
    if metric == "hit":
        argv += ["-r", gen.fmt_num(thr)]
    r = H.run_cli(argv)
    if r.kind != "ok":
        ctx.fail("order:%s:%s" % (r.kind, r.site or ""), stdout=r.stdout[-200:])
        return
    hdr, rows = CD.parse_csv(r.stdout)
    ordered = [inputs[i] for i in order]
    ref = RD.RefData(ordered)
    ncol0 = len(hdr) - n
    ctx.require(hdr[ncol0:] == [ai.name + ".txt" for ai in ordered], "order:header", expected=[a.name for a in ordered], actual=hdr)
    for col, ai in enumerate(ordered):
        exp = expected_column(ref, metric, col, ax, thr)
        got = [row[ncol0 + col] for row in rows]
        ok = len(exp) == len(got) and all(CD.close_printed(e, g) for e, g in zip(exp, got))
        ctx.require(ok, "order:%s:%s" % (metric, ax), expected=exp, actual=got, column=col, order=list(order))
    ctx.observe((order, metric, ax, tuple(tuple(r) for r in rows)))
    ctx.outcome("ok")
    ctx.flag("orders-differ")
    ctx.nontrivial(list(order) != sorted(order))


# ------------------------------------------------------------------------------------------------------
def h_columns(ctx):
    seed = core.seed()
    locs = gen.std_locs(2, seed)
    A = gen.AInput("A", [T0 + DAY, T0], [6.0, 0.0], locs)
    scrambled(A, ["obs", "fcst", "p1"], values(seed), 6)
    cols = ["unixtime", "leadtime", "location", "lat", "lon", "altitude", "obs", "fcst", "p1"]
    # all permutations of 5 'moving' columns among fixed others would be 9!; enumerate all placements of the
    # coordinate block and all orders of the data block (3! x 6!/... kept to 720 x 6)
    pc = ctx.choose("coord-order", list(itertools.permutations(range(6))), free=True)
    pd = ctx.choose("data-order", list(itertools.permutations(range(3))), free=True)
    inter = ctx.choose("interleave", (False, True), free=True)
    coord = [cols[i] for i in pc]
    dat = [cols[6 + i] for i in pd]
    header = coord + dat
    if inter:
        header = [x for pair in itertools.zip_longest(dat, coord) for x in pair if x is not None]
    d = os.path.join(H.scratch(), "c02cols")
    os.makedirs(d, exist_ok=True)
    pa = gen.text_file(A, os.path.join(d, "A.txt"), columns=header)
    import verif.input
    import verif.data
    kind, data, site, out = H.quiet_call(lambda: verif.data.Data([verif.input.Text(pa)]))
    if kind != "ok":
        ctx.fail("data-%s:%s" % (kind, site), stdout=out[-200:])
        return
    ref = RD.RefData([A])
    meta = [(x.id, x.lat, x.lon, x.elev) for x in data.locations]
    ctx.require(meta == [tuple(m) for m in ref.locmeta], "columns:location-metadata", expected=ref.locmeta, actual=meta)
    sig = CD.check_requests(ctx, data, ref, [["obs", "fcst", ("p", 1.0)]], ["all", "no"], "columns")
    ctx.observe((tuple(header[:4]), sig))
    ctx.outcome("ok")
    ctx.flag("orders-differ")
    ctx.nontrivial(header != cols)

# ------------------------------------------------------------------------------------------------------
THR_A, THR_B = (1.0, 5.0), (1.0, 3.0, 5.0)
Q_A, Q_B = (0.1, 0.9), (0.1, 0.5, 0.9)


def h_fields(ctx):
    """Thresholds and quantile levels are coordinates too: each file stores its probabilities / quantile values under its own
    list of thresholds / levels, in its own order, and another file may have more of them."""
    seed = core.seed()
    via = ctx.params["via"]
    oa = ctx.choose("order:A", PERMS[2], free=True)
    ob = ctx.choose("order:B", PERMS[3], free=True)
    swap = ctx.choose("first-input", ("A", "B"), free=True)
    # heterogeneous columns: both files have ensemble members, but only A stores the probability for threshold 5 and the 0.9 quantile;
    # what a file stores is what is used for that file, whatever the other files contain
    hetero = ctx.choose("B-derives-p5-and-q0.9-from-its-members", (False, True), free=True)
    locs = gen.std_locs(2, seed)
    times = [T0, T0 + DAY]
    inputs = []
    for name, thr, qs, perm, salt in (("A", THR_A, Q_A, oa, 1), ("B", (1.0, 3.0) if hetero else THR_B, (0.1, 0.5) if hetero else Q_B, ob[:2] if hetero and max(ob[:2]) < 2 else ((0, 1) if hetero else ob), 2)):
        ai = gen.AInput(name, times, [0.0, 6.0], locs)
        ai.keep_field_order = True
        scrambled(ai, ["obs", "fcst"], values(seed), salt)
        k = 0
        for kind_, levels in (("p", thr), ("q", qs)):
            for lv in permute(list(levels), perm):
                d = {}
                for n_, pos in enumerate(ai.positions()):
                    # distinct per (file, kind, level, cell), inside [0, 1] for probabilities
                    base = (salt * 37 + int(lv * 10) * 11 + n_ * 3) % 128
                    d[pos] = base / 128.0 if kind_ == "p" else base / 4.0
                ai.fields["%s%s" % (kind_, gen.fmt_num(lv))] = d
                k += 1
        if hetero:
            for m_ in range(3):
                ai.fields["e%d" % m_] = {pos: float((salt * 3 + n_ * 5 + m_ * 7) % 11) for n_, pos in enumerate(ai.positions())}
        inputs.append(ai)
    if swap == "B":
        inputs = inputs[::-1]
    ref = RD.RefData(inputs)
    kind, data, site, out = CD.make_data(inputs, via=via, subdir="c02fields")
    if kind != "ok":
        ctx.fail("fields:data-%s:%s" % (kind, site), stdout=out[-200:])
        return
    def close_list(got, exp):       # NetCDF stores the levels in single precision
        got = [float(x) for x in got]
        return len(got) == len(exp) and all(abs(a - b) < 1e-6 for a, b in zip(got, exp))
    ctx.require(close_list(data.thresholds, [1.0] if hetero else [1.0, 5.0]), "fields:common-thresholds", actual=[float(x) for x in data.thresholds])
    ctx.require(close_list(data.quantiles, [0.1] if hetero else [0.1, 0.9]), "fields:common-quantiles", actual=[float(x) for x in data.quantiles])
    if hetero:
        ctx.flag("heterogeneous")
    roles = [[("p", 1.0)], [("p", 5.0)], ["obs", ("p", 5.0)], [("p", 5.0), ("p", 1.0)], [("q", 0.1)], [("q", 0.9)], ["obs", ("q", 0.9), ("q", 0.1)]]
    sig = CD.check_requests(ctx, data, ref, roles, ["all", "no", "location"], "fields")
    ctx.observe((oa, ob, swap, hetero, sig))
    ctx.outcome("via=%s" % via)
    nat = oa == (0, 1) and ob == (0, 1, 2)
    if not nat:
        ctx.flag("orders-differ")
    ctx.nontrivial(not nat)

# ------------------------------------------------------------------------------------------------------
def h_pit_x0(ctx):
    """A variable with a discrete mass at x0: the PIT is randomised only where the file's own observation equals x0.  Everywhere else
    the PIT returned for a coordinate is the PIT stored for that coordinate, whatever the storage order of the dimensions; at the
    randomised cells it lies in [0, stored]."""
    import verif.data
    import verif.field
    import verif.axis
    seed = core.seed()
    via = ctx.params["via"]
    pt = ctx.choose("perm-times", PERMS[3], free=True)
    ps = ctx.choose("perm-locs", PERMS[3], free=True)
    pl = ctx.choose("perm-leads", PERMS[2], free=True)
    locs = gen.std_locs(3, seed)
    times = [T0, T0 + DAY, T0 + 2 * DAY]
    leads = [0.0, 6.0]
    ai = gen.AInput("A", permute(times, pt), permute(leads, pl), permute(locs, ps), variable="Precip", units="mm", x0=0.0)
    scrambled(ai, ["obs", "fcst", "pit"], values(seed), 3)
    stored = {}
    for n_, pos in enumerate(sorted(ai.positions(), key=lambda p: (ai.times[p[0]], ai.leads[p[1]], ai.locs[p[2]][0]))):
        key = (ai.times[pos[0]], ai.leads[pos[1]], ai.locs[pos[2]][0])
        ai.fields["pit"][pos] = ((n_ * 5) % 16 + 1) / 17.0
        if n_ % 4 == 1:
            ai.fields["obs"][pos] = 0.0             # on the discrete mass
        stored[key] = (ai.fields["obs"][pos], ai.fields["pit"][pos])
    kind, data, site, out = CD.make_data([ai], via=via, subdir="c02pit")
    if kind != "ok":
        ctx.fail("pit-x0:data-%s:%s" % (kind, site), stdout=out[-200:])
        return
    kind, arr, site, _ = H.quiet_call(data.get_scores, verif.field.Pit(), 0, verif.axis.All(), None)
    if kind != "ok":
        ctx.fail("pit-x0:%s:%s" % (kind, site))
        return
    arr = np.asarray(arr, dtype=float)
    T, L, S = [float(t) for t in data.times], [float(l) for l in data.leadtimes], [l.id for l in data.locations]
    ctx.require(arr.shape == (len(T), len(L), len(S)), "pit-x0:shape", actual=list(arr.shape))
    ndet = 0
    for a, t in enumerate(T):
        for b, l in enumerate(L):
            for c, sid in enumerate(S):
                o, pv = stored[(t, l, sid)]
                g = float(arr[a, b, c])
                if o != 0.0:
                    ndet += 1
                    if not abs(g - pv) <= 2e-6:
                        ctx.fail("pit-x0:stored-pit-of-another-coordinate", time=t, leadtime=l, location=sid, expected=pv, actual=g)
                elif not (-1e-9 <= g <= pv + 2e-6):
                    ctx.fail("pit-x0:randomised-outside-0-stored", time=t, leadtime=l, location=sid, stored=pv, actual=g)
    ctx.observe((pt, ps, pl))
    ctx.outcome("via=%s" % via)
    nat = pt == (0, 1, 2) and ps == (0, 1, 2) and pl == (0, 1)
    if not nat:
        ctx.flag("orders-differ")
    ctx.nontrivial(not nat)


def h_reuse(ctx):
    """The same input OBJECT handed to two datasets one after the other (a script comparing A with B1, then with B2): what
    the second dataset returns for A is still A's stored value at each coordinate, whatever the first partner lacked."""
    import verif.data
    seed = core.seed()
    via = ctx.params["via"]
    locs = gen.std_locs(2, seed)
    t = [T0, T0 + DAY]
    l = [0.0, 6.0]
    pt = ctx.choose("perm-times:A", PERMS[2], free=True)
    pl = ctx.choose("perm-leads:A", PERMS[2], free=True)
    ps = ctx.choose("perm-locs:A", PERMS[2], free=True)
    A = gen.AInput("A", permute(t, pt), permute(l, pl), permute(locs, ps))
    B = gen.AInput("B", t[::-1], l, locs)
    D = gen.AInput("D", t, l[::-1], locs[::-1])
    scrambled(A, ["obs", "fcst"], values(seed), 1)
    scrambled(B, ["obs", "fcst"], values(seed), 2)
    scrambled(D, ["obs", "fcst"], values(seed), 5)
    nmiss = 0
    for f in ("obs", "fcst"):
        for pos in D.positions():
            if ctx.choose_bool("first-partner-lacks:%s:%r" % (f, pos)):
                del D.fields[f][pos]
                nmiss += 1
    obsr = ctx.choose_bool("first-dataset-has-obsrange")
    a_obj, b_obj, d_obj = CD.build_inputs([A, B, D], via=via, subdir="c02reuse")
    kw1 = {"obs_range": [values(seed)[3], values(seed)[150]]} if obsr else {}
    kind, first, site, out = H.quiet_call(verif.data.Data, [a_obj, d_obj], **kw1)
    if kind != "ok":
        ctx.fail("reuse:first-data-%s:%s" % (kind, site))
        return
    ref1 = RD.RefData([A, D], **kw1)
    CD.check_requests(ctx, first, ref1, [["obs", "fcst"], ["obs"]], ["all", "no", "location"], "reuse-first")
    kind, data, site, out = H.quiet_call(verif.data.Data, [a_obj, b_obj])
    if kind != "ok":
        ctx.fail("reuse:second-data-%s:%s" % (kind, site))
        return
    ref = RD.RefData([A, B])
    sig = CD.check_requests(ctx, data, ref, [["obs", "fcst"], ["fcst"], ["obs"]], ["all", "no", "time", "leadtime", "location"], "reuse")
    ctx.observe((pt, pl, ps, nmiss, obsr, sig))
    ctx.outcome("missing=%d" % nmiss)
    ctx.flag("orders-differ")
    ctx.nontrivial(nmiss > 0 or obsr)


def plan(tier):
    q = tier == "quick"
    p = [("dims-mem", h_dims, {"via": "mem", "options": ["none", "dates", "tods", "times", "lat+elev", "l+elev", "lon+elev"]}),
         ("dims-nc", h_dims, {"via": "nc", "options": ["none", "tods"] if not q else ["tods"], "only_one": q}),
         ("dims-borrowed-obs", h_dims, {"via": "mem", "options": ["none"], "b_no_obs": True}),
         ("dims-near", h_dims, {"via": "mem", "options": ["none", "times"], "near": True}),
         ("rows8", h_rows, {"sparse": False}), ("rows6-sparse", h_rows, {"sparse": True}), ("rows6-jitter", h_rows, {"sparse": True, "jitter": True}),
         ("repeat-mem", h_repeat, {"via": "mem"}), ("repeat-nc", h_repeat, {"via": "nc"}),
         ("order2", h_order, {"n": 2}), ("order3", h_order, {"n": 3}),
         ("columns", h_columns, {}),
         ("fields-mem", h_fields, {"via": "mem"}), ("fields-text", h_fields, {"via": "text"}), ("fields-nc", h_fields, {"via": "nc"}),
         ("pit-x0-mem", h_pit_x0, {"via": "mem"}), ("pit-x0-nc", h_pit_x0, {"via": "nc"}),
         ("reuse-mem", h_reuse, {"via": "mem"}), ("reuse-text", h_reuse, {"via": "text"})]
    if not q:
        p.append(("order4", h_order, {"n": 4}))
    return p


def run(tier, only=None):
    subs = []
    for name, h, params in plan(tier):
        if only and only != name:
            continue
        t0 = time.time()
        if name == "dims-nc" and tier == "quick":
            # quick: all 72 orders of each input against the other in natural order would miss joint effects;
            # use dev(3) over the six permutation choice points instead (every pair of permuted dimensions)
            st = explore.explore(h_dims_bounded, mode="dev", k=2, params=params, repo_root=core.REPO)
            bound = "dev(2) over the six per-dimension permutations of two NetCDF inputs, with -tod"
        elif name.startswith("reuse"):
            kk = 2 if tier == "quick" else 3
            st = explore.explore(h, mode="dev", k=kk, params=params, repo_root=core.REPO, time_cap=(600 if tier == "quick" else 1500))
            bound = "full 8 orders of the reused input x dev(%d) over the cells the first partner lacks and -obsrange on the first dataset" % kk
        else:
            st = explore.explore(h, mode="full", params=params, repo_root=core.REPO, time_cap=(600 if tier == "quick" else 1500))
            bound = "full product"
        subs.append(core.Sub.from_e1(name, st, bound=bound + " %r" % (params,),
                                     rule="one execution = one ordering; every cell of get_scores(All) and every sliced request compared with the "
                                          "coordinate-keyed reference; non-trivial = the two inputs' orders differ / the order is not the natural one",
                                     required_flags=("orders-differ",) if name not in ("repeat-mem", "repeat-nc") else (), min_outcomes=1,
                                     wall=time.time() - t0))
    return subs


def h_dims_bounded(ctx):
    """same as h_dims but the permutation choice points count as deviations"""
    seed = core.seed()
    via = ctx.params["via"]
    (tA, lA, sA), (tB, lB, sB) = base_pair(seed)
    inputs = []
    for name, (t, l, s), salt in (("A", (tA, lA, sA), 1), ("B", (tB, lB, sB), 2)):
        pt = ctx.choose("perm-times:%s" % name, PERMS[3])
        pl = ctx.choose("perm-leads:%s" % name, PERMS[2])
        ps = ctx.choose("perm-locs:%s" % name, PERMS[3])
        ai = gen.AInput(name, permute(t, pt), permute(l, pl), permute(s, ps))
        scrambled(ai, ["obs", "fcst"], values(seed), salt)
        inputs.append(ai)
    A, B = inputs
    opt = ctx.choose("subset-option", ctx.params["options"], free=True)
    kw = {"tods": [0]} if opt == "tods" else {}
    ref = RD.RefData(inputs, **kw)
    kind, data, site, out = CD.make_data(inputs, via=via, subdir="c02dimsb", **kw)
    if kind != "ok":
        ctx.fail("data-%s:%s" % (kind, site), stdout=out[-200:])
        return
    ctx.require([float(x) for x in data.times] == [float(x) for x in ref.T], "dims:times", expected=ref.T, actual=[float(x) for x in data.times])
    ctx.require([x.id for x in data.locations] == ref.S, "dims:locations", expected=ref.S, actual=[x.id for x in data.locations])
    sig = CD.check_requests(ctx, data, ref, [["obs", "fcst"], ["fcst"], ["obs"]], ["all", "no", "time", "leadtime", "location"], "dims")
    ctx.observe(sig)
    ctx.outcome("opt=%s" % opt)
    differ = ctx.deviations > 0
    if differ:
        ctx.flag("orders-differ")
    ctx.nontrivial(differ)


def replay(rec):
    for tier in (rec.get("tier", "quick"), "thorough", "quick"):
        for name, h, params in plan(tier):
            if name == rec["subcheck"]:
                hh = h_dims_bounded if (name == "dims-nc" and tier == "quick") else h
                ctx, _ = explore.replay(hh, rec["choices"], None, params=params, repo_root=core.REPO)
                return [v.locus for v in ctx.violations if v.locus == rec["signature"][1]]
    return []
