"""C15 - aggregators and -T pre-aggregation compute the documented statistics.

 arrays   every array of <= 4 (thorough 6) elements over {-1, 0, 1/2, 2} in every shape of <= 4 dimensions with extents 1..3, every
          axis argument (None, 0..ndim-1), all 14 named aggregators + quantile levels {0, 1/4, 1/2, 3/4, 1}; NaN at one position
 window   lead-time / time grids = every subset of {0,1,2,3,6,12} h of size 1..4 (irregular spacing), window h in {1,2,3,6,24},
          all aggregators, -Tx in {leadtime, time}, 2 inputs with DIFFERENT grids, fields obs / fcst / member / ensemble-derived
          probability and quantile, through Data(dim_agg_*) and through -T h -Tagg f -Tx a -type csv
Oracle: mc/ref/aggregators.py and the trailing window (x-h, x] of mc/ref/dataset.py.
"""
import itertools
import math
import os
import time

import numpy as np

from mc import core, explore, gen
from mc import harness as H
from mc.ref import aggregators as AG
from mc.ref import dataset as RD
from mc.ref import scores as RS
from checks import common_data as CD

PID = "C15"
LEVEL = "exploration"
TECHNIQUE = "bounded exhaustive enumeration (E1) of all small arrays x shapes x axes x aggregators, and of all irregular time/lead-time grids x window lengths x aggregators on the real Data object and CLI, against plain-Python reference statistics"
ASSUMPTIONS = ["population std/variance, type-7 quantiles", "-T results pass through float32 (2e-6 relative tolerance)",
               "grids are stored in ascending order (unsorted NetCDF lead times with -T are not judged)"]

VALS = [-1.0, 0.0, 0.5, 2.0]
AGGS = AG.NAMES + [0.0, 0.25, 0.5, 0.75, 1.0, 0.125, 0.975]      # the last two are not whole percents


def shapes(maxprod):
    out = []
    for nd in (1, 2, 3, 4):
        for sh in itertools.product((1, 2, 3), repeat=nd):
            if int(np.prod(sh)) <= maxprod:
                out.append(sh)
    return out


def get_agg(a):
    import verif.aggregator
    return verif.aggregator.get(a if isinstance(a, str) else repr(float(a)))


def ref_along(arr, axis, a):
    """reference aggregate of a nested-list array (as numpy object only for indexing) along an axis"""
    if axis is None:
        return AG.aggregate(a, [float(x) for x in arr.reshape(-1)])
    moved = np.moveaxis(arr, axis, -1)
    out = np.empty(moved.shape[:-1], dtype=float)
    for idx in np.ndindex(*moved.shape[:-1]):
        out[idx] = AG.aggregate(a, [float(x) for x in moved[idx]])
    return out


def close(e, g, rtol=1e-9):
    e = np.asarray(e, dtype=float)
    g = np.asarray(g, dtype=float)
    if e.shape != g.shape:
        return False
    return bool(np.all((np.isnan(e) & np.isnan(g)) | (np.abs(e - g) <= rtol * np.maximum(1.0, np.abs(e)))))


def h_arrays(ctx):
    sh = ctx.choose("shape", ctx.params["shapes"], free=True)
    n = int(np.prod(sh))
    vals = [ctx.choose("v%d" % i, VALS, free=True) for i in range(n)]
    nan_at = ctx.choose("nan", [None] + list(range(n)), free=True) if n <= ctx.params["nanmax"] else None
    if nan_at is not None:
        vals[nan_at] = float("nan")
    arr = np.array(vals, dtype=float).reshape(sh)
    ctx.note("array", arr.tolist())
    sig = []
    for axis in [None] + list(range(len(sh))):
        for a in AGGS:
            agg = get_agg(a)
            kind, got, site, _ = H.quiet_call(agg, arr.copy(), axis)
            exp = ref_along(arr, axis, a)
            if kind != "ok":
                ctx.fail("agg:%s:%s:%s" % (a if isinstance(a, str) else "quantile", kind, site), shape=list(sh), axis=axis)
                continue
            if not close(exp, got):
                ctx.fail("agg:%s:%s" % (a if isinstance(a, str) else "quantile", "value" if np.shape(got) == np.shape(exp) else "shape"), shape=list(sh), axis=axis,
                         array=arr.tolist(), expected=np.asarray(exp).tolist(), actual=np.asarray(got, dtype=float).tolist(), aggregator=a)
            ctx.count()
        sig.append(axis)
    ctx.observe((sh, tuple(vals[:n]) if nan_at is None else ("nan", nan_at)))
    ctx.outcome("ndim=%d" % len(sh))
    ctx.nontrivial(n > 1)

DEC = [0.1, 0.2, 0.7, 1.3]
OFFSETS = [273.15, -1234.5678, 101325.0]


def h_offset(ctx):
    """decimal values on a large common offset (Kelvin-like data): an algebraically equal but cancelling evaluation
    (one-pass variance) is off by ~1e-10..1e-6 or negative here; the reference sums exactly (fsum, two passes)"""
    sh = ctx.choose("shape", [(2,), (3,), (2, 2), (2, 3)], free=True)
    off = ctx.choose("offset", OFFSETS, free=True)
    n = int(np.prod(sh))
    vals = [ctx.choose("v%d" % i, DEC if i < 4 else DEC[:2], free=True) + off for i in range(n)]
    arr = np.array(vals, dtype=float).reshape(sh)
    ctx.note("array", arr.tolist())
    for axis in [None] + list(range(len(sh))):
        for a in AGGS:
            agg = get_agg(a)
            kind, got, site, _ = H.quiet_call(agg, arr.copy(), axis)
            exp = ref_along(arr, axis, a)
            if kind != "ok":
                ctx.fail("offset:%s:%s:%s" % (a if isinstance(a, str) else "quantile", kind, site), shape=list(sh), axis=axis)
            elif not close(exp, got, rtol=1e-8):
                ctx.fail("offset:%s:value" % (a if isinstance(a, str) else "quantile"), shape=list(sh), axis=axis,
                         array=arr.tolist(), expected=np.asarray(exp).tolist(), actual=np.asarray(got, dtype=float).tolist(), aggregator=a)
            ctx.count()
    if len(set(vals)) == 1:
        ctx.flag("constant")
    ctx.observe(tuple(vals))
    ctx.outcome("ndim=%d" % len(sh))
    ctx.nontrivial()


# ---- -T ----------------------------------------------------------------------------------------------------------
GRID = [0.0, 1.0, 2.0, 3.0, 6.0, 12.0]
T0 = 1330387200


def grids():
    out = []
    for k in (1, 2, 3, 4):
        out += [list(c) for c in itertools.combinations(GRID, k)]
    return out


def build(grid, tx, seed):
    """two inputs whose own grids differ: B has every point of the full GRID up to max(grid) (extra points inside A's windows)"""
    locs = gen.std_locs(2, seed)
    gridB = [g for g in GRID if g <= max(grid)]
    vals = gen.unique_values(seed, 400)
    inputs = []
    for name, g, salt in (("A.txt", grid, 0), ("B.txt", gridB, 120)):
        if tx == "leadtime":
            times, leads = [T0, T0 + 86400], list(g)
        else:
            times, leads = [T0 + int(x * 3600) for x in g], [0.0, 6.0]
        ai = gen.AInput(name, times, leads, locs)
        for fi, f in enumerate(["obs", "fcst", "e0", "e1", "e2"]):
            d = {}
            for m, pos in enumerate(ai.positions()):
                t, l, s = ai.times[pos[0]], ai.leads[pos[1]], ai.locs[pos[2]][0]
                key = (int((t - T0) // 3600) * 5 + int(l) * 3 + int(s)) % 61
                if f == "obs":
                    d[pos] = vals[key]
                else:
                    d[pos] = vals[(key * 3 + fi * 17 + salt) % len(vals)]
            ai.fields[f] = d
        inputs.append(ai)
    return inputs


def h_window(ctx):
    import verif.data
    import verif.axis
    seed = core.seed()
    via = ctx.params["via"]
    grid = ctx.choose("grid", ctx.params["grids"], free=True)
    h = ctx.choose("window", ctx.params["windows"], free=True)
    a = ctx.choose("aggregator", ctx.params["aggs"], free=True)
    tx = ctx.choose("-Tx", ("leadtime", "time"), free=True)
    inputs = build(grid, tx, seed)
    miss = ctx.choose("missing", (None, ("fcst", 0), ("obs", 1), ("e1", 0)), free=True)
    if miss is not None:
        pos = inputs[0].positions()[min(len(inputs[0].positions()) - 1, 2)]
        inputs[miss[1]].fields[miss[0]].pop(pos, None)
    ctx.note("case", {"grid": grid, "h": h, "agg": a, "tx": tx, "missing": miss})
    ref = RD.RefData(inputs, agg_len=h, agg_axis=tx, agg_method=a)
    if via == "cli":
        d = os.path.join(H.scratch(), "c15cli")
        os.makedirs(d, exist_ok=True)
        paths = [gen.text_file(ai, os.path.join(d, ai.name)) for ai in inputs]
        aname = a if isinstance(a, str) else repr(float(a))
        for metric in ("obs", "fcst", "mae"):
            ax = "leadtime" if tx == "leadtime" else "time"
            r = H.run_cli(paths + ["-m", metric, "-T", str(h), "-Tagg", aname, "-Tx", tx, "-x", ax, "-type", "csv"])
            if r.kind != "ok":
                ctx.fail("cli:%s:%s" % (r.kind, r.site or ""), stdout=r.stdout[-300:])
                continue
            hdr, rows = CD.parse_csv(r.stdout)
            nsl = len(ref.axis_values(ax))
            if not ctx.require(len(rows) == nsl, "cli:row-count", expected=nsl, actual=len(rows)):
                continue
            for k in range(nsl):
                for i in range(2):
                    e = RS.score(ref, metric, i, ax, k)
                    cell = rows[k][len(rows[k]) - 2 + i]
                    ok = CD.close_printed(e, cell, 5) if (e is not None and not math.isnan(e)) else cell == "nan"
                    if not ok:
                        ctx.fail("cli:-T:%s:%s" % (metric, tx), row=k, input=i, expected=e, actual=cell, case=ctx.notes["case"])
        ctx.observe((tuple(grid), h, str(a), tx, miss))
        ctx.outcome(tx)
        ctx.nontrivial(len(grid) > 1)
        return
    objs = CD.build_inputs(inputs)
    kind, data, site, out = H.quiet_call(verif.data.Data, objs, dim_agg_length=h, dim_agg_axis=verif.axis.get(tx), dim_agg_method=get_agg(a))
    if kind != "ok":
        ctx.fail("data-%s:%s" % (kind, site), stdout=out[-200:])
        return
    roles = [["obs", "fcst"], ["fcst"], ["obs"], [("e", 0)], [("e", 1), ("e", 2)], ["obs", ("p", ctx.params["thr"])], ["obs", ("q", 0.5)]]
    sig = CD.check_requests(ctx, data, ref, roles, ["all", "no", "leadtime", "time"], "-T:%s" % tx, rtol=3e-6)
    ctx.observe((tuple(grid), h, str(a), tx, miss, sig))
    ctx.outcome(tx)
    if len(grid) > 1 and any(grid[i + 1] - grid[i] != grid[1] - grid[0] for i in range(len(grid) - 1)):
        ctx.flag("irregular")
    ctx.nontrivial(len(grid) > 1)


def plan(tier):
    q = tier == "quick"
    return [("arrays", h_arrays, {"shapes": shapes(4 if q else 6), "nanmax": 3 if q else 4}),
            ("arrays-offset", h_offset, {}),
            ("window", h_window, {"via": "mem", "grids": grids(), "windows": [1, 2, 3, 6, 24], "aggs": (["mean", "sum", "min", "max", "count", "change", "std", "median", 0.5] if q else AG.NAMES + [0.0, 0.5, 1.0]), "thr": 10.0}),
            ("window-cli", h_window, {"via": "cli", "grids": [g for g in grids() if len(g) in ((2, 4) if q else (1, 2, 3, 4))], "windows": [2, 6] if q else [1, 2, 3, 6, 24],
                                      "aggs": ["mean", "sum", "max", "change", "count"] if q else AG.NAMES, "thr": 10.0})]


def run(tier, only=None):
    subs = []
    for name, h, params in plan(tier):
        if only and only != name:
            continue
        t0 = time.time()
        st = explore.explore(h, mode="full", params=params, repo_root=core.REPO, time_cap=(400 if tier == "quick" else 3000))
        bound = {"arrays": "all arrays over a 4-value alphabet in all %d shapes (<= 4 dims, extents 1..3) x all axes x 21 aggregators" % len(params.get("shapes", [])),
                 "arrays-offset": "all arrays of 4 decimal values on offsets %r in shapes (2,), (3,), (2,2), (2,3) x all axes x 21 aggregators, 1e-8 relative" % (OFFSETS,),
                 "window": "all %d grids x %d windows x %d aggregators x 2 axes x 4 missing-cell variants" % (len(params.get("grids", [])), len(params.get("windows", [])), len(params.get("aggs", []))),
                 "window-cli": "as window on a subset, through -T/-Tagg/-Tx csv"}[name]
        subs.append(core.Sub.from_e1(name, st, bound=bound, rule="one execution = one array (all axes x aggregators) / one (grid, window, aggregator, axis) dataset with 7 request sets x 4 axes",
                                     required_flags=("irregular",) if name == "window" else ("constant",) if name == "arrays-offset" else (), wall=time.time() - t0))
    return subs


def replay(rec):
    for tier in (rec.get("tier", "quick"), "thorough", "quick"):
        for name, h, params in plan(tier):
            if name == rec["subcheck"]:
                ctx, _ = explore.replay(h, rec["choices"], None, params=params, repo_root=core.REPO)
                return [v.locus for v in ctx.violations if v.locus == rec["signature"][1]]
    return []
