"""C16 - diagrams draw the quantities their definitions prescribe.

E1: for each diagram a small menu of its own options x N in {1,2,3} inputs x dataset variants (partly missing cells).  The figure
is produced by the real driver (-f out.png) and read back from matplotlib.pyplot.gcf(): Line2D data, bar rectangles, scatter
offsets / colours.  Main series are identified by their legend label (the input's name) and compared, as data, with the
diagram's defining statistics computed from the reference dataset model's common valid cases.  Decorations (reference
diagonals, iso-lines, confidence bands, quantile envelopes) are not compared.
"""
import math
import os
import time

import numpy as np

from mc import core, explore, gen, datasets
from mc import harness as H
from mc.ref import dataset as RD
from mc.ref import scores as RS
from mc.ref import metrics_prob as MP
from mc.ref import metrics_det as MD
from mc.ref import aggregators as AG

PID = "C16"
LEVEL = "exploration"
TECHNIQUE = "bounded exhaustive enumeration (E1) of diagram x option menu x number of inputs x dataset variant through the real driver; the rendered figure's artists are read back and the main series compared with reference statistics"
ASSUMPTIONS = ["artist level only (no pixels); cartopy backgrounds are not installed", "only main series are compared; decorations are identified by label/style and ignored",
               "error diagram: either sign convention of the bias is accepted"]

DAY = 86400
T0 = 1330387200


def build(n, seed, variant):
    locs = gen.std_locs(3, seed)
    times = [T0 + i * DAY + (6 * 3600 if i % 2 else 0) for i in range(6)]
    leads = [0.0, 12.0, 24.0]
    names = ["Alpha.txt", "Beta.txt", "Gamma.txt"][:n]
    inputs = []
    for k, name in enumerate(names):
        miss = []
        if variant == "missing":
            miss = [("fcst", (0, 1, 1)), ("obs", (2, 0, 2))] if k == 0 else [("fcst", (3, 2, 0)), ("p2", (1, 1, 1)), ("pit", (4, 0, 0)), ("q0.1", (5, 2, 2))]
        inputs.append(datasets.full_input(name, times, leads, locs, k=k, seed=seed, missing=miss))
    return inputs


def write(inputs, sub):
    d = os.path.join(H.scratch(), sub)
    os.makedirs(d, exist_ok=True)
    paths = []
    for ai in inputs:
        p = os.path.join(d, ai.name)
        gen.text_file(ai, p)
        paths.append(p)
    return paths


def render(argv):
    import matplotlib.pyplot as mpl
    out = os.path.join(H.scratch(), "c16-%d.png" % os.getpid())
    if os.path.exists(out):
        os.remove(out)
    r = H.run_cli(list(argv) + ["-f", out])
    fig = mpl.gcf() if r.kind == "ok" else None
    return r, fig, out


def lines_by_label(fig):
    out = {}
    for ax in fig.axes:
        for ln in ax.get_lines():
            out.setdefault(str(ln.get_label()), []).append((np.asarray(ln.get_xdata(), dtype=float), np.asarray(ln.get_ydata(), dtype=float), ax))
    return out


def rects(ax):
    import matplotlib.patches
    out = []
    for p in ax.patches:
        if isinstance(p, matplotlib.patches.Rectangle):
            out.append((p.get_x(), p.get_height(), p.get_width(), p.get_y(), str(p.get_label())))
    return out


def same_points(exp, got, tol=1e-6, ordered=True):
    """lists of (x, y); NaN-aware"""
    exp = [(float(a), float(b)) for a, b in exp]
    got = [(float(a), float(b)) for a, b in got]
    if not ordered:
        key = lambda t: (t[0] if not math.isnan(t[0]) else 1e99, t[1] if not math.isnan(t[1]) else 1e99)   # noqa
        exp, got = sorted(exp, key=key), sorted(got, key=key)
    if len(exp) != len(got):
        return False
    for (a, b), (c, d) in zip(exp, got):
        for u, v in ((a, c), (b, d)):
            if math.isnan(u) and math.isnan(v):
                continue
            if math.isnan(u) or math.isnan(v) or abs(u - v) > tol * max(1.0, abs(u)):
                return False
    return True


def nan(v):
    return float("nan") if v is None else v


def one_line(ctx, lbl, label, tag):
    ls = lbl.get(label)
    if not ctx.require(ls is not None and len(ls) >= 1, "%s:series-missing" % tag, label=label, labels=sorted(lbl)[:12]):
        return None
    return ls


# ---- per-diagram oracles -----------------------------------------------------------------------------------------------------
def d_standard(ctx, inputs, paths, ref, opt):
    metric, axis = opt
    argv = paths + ["-m", metric, "-x", axis] + (["-r", "2"] if metric in ("ets", "bs") else [])
    r, fig, out = render(argv)
    if r.kind != "ok":
        return ctx.fail("standard:%s:%s" % (r.kind, r.site or "rejected"), argv=argv[len(paths):])
    iv = (2.0, float("inf"), False, False) if metric in ("ets", "bs") else None
    n = len(inputs)
    if axis == "no":
        bars = rects(fig.axes[0])
        exp = [nan(RS.score(ref, metric, i, "no", 0, iv=iv)) for i in range(n)]
        got = [b[1] for b in bars]
        ctx.require(len(got) == n and all(abs(a - b) < 1e-6 or (math.isnan(a) and math.isnan(b)) for a, b in zip(exp, got)), "standard:bars", expected=exp, actual=got, metric=metric)
        return
    lbl = lines_by_label(fig)
    vals = ref.axis_values(axis)
    order = [str(l.get_label()) for l in fig.axes[0].get_lines() if not str(l.get_label()).startswith("_")]
    ctx.require([o for o in order if o in [a.name for a in inputs]] == [a.name for a in inputs], "standard:series-order", expected=[a.name for a in inputs], actual=order)
    for i, ai in enumerate(inputs):
        ls = one_line(ctx, lbl, ai.name, "standard")
        if ls is None:
            continue
        x, y, _ = ls[0]
        exp = [nan(RS.score(ref, metric, i, axis, k, iv=iv)) for k in range(len(vals))]
        xs = [v / 86400.0 for v in vals] if axis in ("time", "month", "year", "week", "day") else [float(v) for v in vals]
        ctx.require(same_points(list(zip(xs, exp)), list(zip(x, y))), "standard:line:%s" % metric, axis=axis, input=ai.name, expected=list(zip(xs, exp)), actual=list(zip(x.tolist(), y.tolist())))


def d_obsfcst(ctx, inputs, paths, ref, opt):
    axis, qs = opt if isinstance(opt, tuple) else (opt, None)
    r, fig, out = render(paths + ["-m", "obsfcst", "-x", axis] + (["-q", ",".join(gen.fmt_num(q) for q in qs)] if qs else []))
    if r.kind != "ok":
        return ctx.fail("obsfcst:%s:%s" % (r.kind, r.site or "rejected"))
    lbl = lines_by_label(fig)
    vals = ref.axis_values(axis)
    xs = [v / 86400.0 for v in vals] if axis == "time" else [float(v) for v in vals]
    ls = one_line(ctx, lbl, "Observed", "obsfcst")
    if ls:
        exp = []
        for k in range(len(vals)):
            rows = ref.request(["obs", "fcst"], 0, axis, k)
            exp.append(AG.aggregate("mean", [o for o, f in rows]) if rows else float("nan"))
        ctx.require(same_points(list(zip(xs, exp)), list(zip(ls[0][0], ls[0][1]))), "obsfcst:obs-line", expected=exp, actual=ls[0][1].tolist())
    for i, ai in enumerate(inputs):
        ls = one_line(ctx, lbl, ai.name, "obsfcst")
        if ls:
            exp = []
            for k in range(len(vals)):
                rows = ref.request(["fcst", "obs"], i, axis, k)
                exp.append(AG.aggregate("mean", [f for f, o in rows]) if rows else float("nan"))
            ctx.require(same_points(list(zip(xs, exp)), list(zip(ls[0][0], ls[0][1]))), "obsfcst:fcst-line", input=ai.name, expected=exp, actual=ls[0][1].tolist())
        for q in (qs or []):
            label = "%s %g%%" % (ai.name, q * 100)
            lq = one_line(ctx, lbl, label, "obsfcst")
            if lq:
                exp = []
                for k in range(len(vals)):
                    rows = ref.request([("q", q), "obs"], i, axis, k)
                    exp.append(AG.aggregate("mean", [x for x, o in rows]) if rows else float("nan"))
                ctx.require(same_points(list(zip(xs, exp)), list(zip(lq[0][0], lq[0][1]))), "obsfcst:quantile-line", label=label, expected=exp, actual=lq[0][1].tolist())


def d_qq_quantiles(ctx, inputs, paths, ref, opt):
    """qq with -q levels (one dashed curve per level and input), pooled or aggregated along -x"""
    axis, qs = opt
    r, fig, out = render(paths + ["-m", "qq", "-q", ",".join(gen.fmt_num(q) for q in qs)] + (["-x", axis] if axis else []))
    if r.kind != "ok":
        return ctx.fail("qq-q:%s:%s" % (r.kind, r.site or "rejected"))
    lbl = lines_by_label(fig)
    roles = ["obs", "fcst"] + [("q", q) for q in qs]
    for i, ai in enumerate(inputs):
        if axis:
            rowsets = [ref.request(roles, i, axis, k) for k in range(len(ref.axis_values(axis)))]
            cols = [[MP._mean([r_[c] for r_ in rows]) if rows else float("nan") for rows in rowsets] for c in range(len(roles))]
        else:
            rows = ref.request(roles, i, "no", 0)
            cols = [[r_[c] for r_ in rows] for c in range(len(roles))]
        srt = lambda v: sorted(v, key=lambda z: (math.isnan(z), z))     # noqa  (numpy sorts NaN last)
        xs = srt(cols[0])
        for c, lab in [(1, ai.name + " (deterministic)")] + [(2 + j, "%s (%g%%)" % (ai.name, q * 100)) for j, q in enumerate(qs)]:
            ls = one_line(ctx, lbl, lab, "qq-q")
            if not ls:
                continue
            exp = list(zip(xs, srt(cols[c])))
            ctx.require(same_points(exp, list(zip(ls[0][0], ls[0][1]))), "qq-q:%s" % ("deterministic" if c == 1 else "quantile-curve"), label=lab, axis=axis,
                        expected=exp[:5], actual=list(zip(ls[0][0].tolist(), ls[0][1].tolist()))[:5])


def d_qq_scatter(ctx, inputs, paths, ref, opt):
    which, simple = opt
    r, fig, out = render(paths + ["-m", which] + (["-simple"] if simple else []))
    if r.kind != "ok":
        return ctx.fail("%s:%s:%s" % (which, r.kind, r.site or "rejected"))
    lbl = lines_by_label(fig)
    for i, ai in enumerate(inputs):
        ls = one_line(ctx, lbl, ai.name, which)
        if not ls:
            continue
        pairs = ref.request(["obs", "fcst"], i, "no", 0)
        got = list(zip(ls[0][0], ls[0][1]))
        if which == "qq":
            exp = list(zip(sorted(o for o, f in pairs), sorted(f for o, f in pairs)))
            ctx.require(same_points(exp, got), "qq:points", input=ai.name, expected=exp[:6], actual=got[:6])
        else:
            ctx.require(same_points(pairs, got, ordered=False), "scatter:points", input=ai.name, expected=len(pairs), actual=len(got))


def d_hist_sort(ctx, inputs, paths, ref, opt):
    which, field = opt
    argv = paths + ["-m", field, "-" + which] + (["-r", "0,1,2,3,10"] if which == "hist" else [])
    r, fig, out = render(argv)
    if r.kind != "ok":
        return ctx.fail("%s:%s:%s" % (which, r.kind, r.site or "rejected"))
    lbl = lines_by_label(fig)
    for i, ai in enumerate(inputs):
        ls = one_line(ctx, lbl, ai.name, which)
        if not ls:
            continue
        vals = [v for (v,) in ref.request([field], i, "no", 0)]
        if which == "sort":
            exp = list(zip(sorted(vals), np.linspace(0, 100, len(vals)).tolist()))
            ctx.require(same_points(exp, list(zip(ls[0][0], ls[0][1]))), "sort:points", input=ai.name)
        else:
            edges = [0, 1, 2, 3, 10]
            cnt = [sum(1 for v in vals if edges[j] < v <= edges[j + 1]) for j in range(4)]
            tot = float(sum(cnt))
            exp = [100.0 * c / tot if tot else float("nan") for c in cnt]
            xs = [(edges[j] + edges[j + 1]) / 2.0 for j in range(4)]
            ctx.require(same_points(list(zip(xs, exp)), list(zip(ls[0][0], ls[0][1]))), "hist:frequencies", input=ai.name, expected=exp, actual=ls[0][1].tolist())
            ctx.require(sum(cnt) <= len(vals), "hist:bins-overlap")


def d_pithist(ctx, inputs, paths, ref, opt):
    r, fig, out = render(paths + ["-m", "pithist"])
    if r.kind != "ok":
        return ctx.fail("pithist:%s:%s" % (r.kind, r.site or "rejected"))
    axes = {ax.get_title(): ax for ax in fig.axes}
    for i, ai in enumerate(inputs):
        ax = axes.get(ai.name)
        if not ctx.require(ax is not None, "pithist:panel-missing", input=ai.name, titles=list(axes)):
            continue
        pit = [v for (v,) in ref.request(["pit"], i, "no", 0)]
        cnt = MP.pit_hist(pit, 10)
        ctx.require(sum(cnt) == len(pit), "pithist:case-not-in-exactly-one-bin", counted=sum(cnt), cases=len(pit))
        exp = [100.0 * c / len(pit) for c in cnt]
        bars = sorted(rects(ax), key=lambda b: b[0])
        got = [b[1] for b in bars][:10]
        ctx.require(len(got) == 10 and all(abs(a - b) < 1e-6 for a, b in zip(exp, got)), "pithist:bar-heights", input=ai.name, expected=exp, actual=got)
        ctx.require(abs(sum(got) - 100.0) < 1e-6, "pithist:bars-do-not-sum-to-100", total=sum(got))


def event_rows(ref, i, thr, bin_type="above"):
    iv = RS.intervals(bin_type, [thr])[0]
    return RS.event_p(ref, i, "no", 0, iv)       # (observed event 0/1, probability of the event)


REL_EDGES_DEFAULT = [0, 0.05, 0.15, 0.25, 0.35, 0.45, 0.55, 0.65, 0.75, 0.85, 0.95, 1]


def d_reliability(ctx, inputs, paths, ref, opt):
    thr, bin_type = opt[:2]
    # optional third entry: bin edges given with -q; they need not span [0, 1] (probabilities outside them are in no bin)
    REL_EDGES = list(opt[2]) if len(opt) > 2 else REL_EDGES_DEFAULT
    r, fig, out = render(paths + ["-m", "reliability", "-r", gen.fmt_num(thr), "-b", bin_type] + (["-q", ",".join(gen.fmt_num(e) for e in REL_EDGES)] if len(opt) > 2 else []))
    if r.kind != "ok":
        return ctx.fail("reliability:%s:%s" % (r.kind, r.site or "rejected"))
    lbl = lines_by_label(fig)
    for i, ai in enumerate(inputs):
        ls = one_line(ctx, lbl, ai.name, "reliability")
        if not ls:
            continue
        rows = event_rows(ref, i, thr, bin_type)
        exp = []
        total = 0
        for j in range(len(REL_EDGES) - 1):
            last = j == len(REL_EDGES) - 2
            sel = [(o, p) for o, p in rows if REL_EDGES[j] <= p and (p < REL_EDGES[j + 1] or (last and p <= REL_EDGES[j + 1]))]
            total += len(sel)
            if sel:
                x = MP._mean([p for o, p in sel])
                y = MP._mean([o for o, p in sel]) if len(sel) >= 5 else float("nan")
            else:
                x, y = 0.0, float("nan")
            exp.append((x, y))
        got = list(zip(ls[0][0], ls[0][1]))
        # the counts in the inset: every valid case in exactly one bin
        main = ls
        inset_axes = [ax for ax in fig.axes if ax.get_title() == "Number"]
        if inset_axes and len(inset_axes[0].get_lines()) == len(inputs):
            ctx.flag("inset")
            n_in_bins = float(np.nansum(np.asarray(inset_axes[0].get_lines()[i].get_ydata(), dtype=float)))
            n_in_range = sum(1 for o, p in rows if REL_EDGES[0] <= p <= REL_EDGES[-1])
            if len(opt) > 2:
                if n_in_range < len(rows):
                    ctx.flag("outside-edges")
                ctx.require(abs(n_in_bins - n_in_range) <= 1e-9, "reliability:bin-counts-with-custom-edges", in_bins=n_in_bins, cases_within_the_edges=n_in_range, edges=REL_EDGES)
            elif abs(n_in_bins - len(rows)) > 1e-9:
                ctx.fail("reliability:case-not-in-exactly-one-bin", in_bins=n_in_bins, valid_cases=len(rows),
                         probabilities_equal_to_1=sum(1 for o, p in rows if p == 1.0))
        if main:
            got = list(zip(main[0][0], main[0][1]))
            okpts = same_points(exp, got)
            if not okpts:
                # tell the known top-edge problem apart from any other difference
                exp_excl = []
                for j in range(len(REL_EDGES) - 1):
                    sel = [(o, p) for o, p in rows if REL_EDGES[j] <= p < REL_EDGES[j + 1]]
                    exp_excl.append((MP._mean([p for o, p in sel]) if sel else 0.0, MP._mean([o for o, p in sel]) if len(sel) >= 5 else float("nan")))
                if same_points(exp_excl, got) and any(p == 1.0 for o, p in rows):
                    ctx.fail("reliability:case-not-in-exactly-one-bin", note="curve omits the cases with probability exactly 1", input=ai.name)
                else:
                    ctx.fail("reliability:curve", input=ai.name, expected=exp, actual=got)


def d_roc(ctx, inputs, paths, ref, opt):
    thr, bin_type = opt
    r, fig, out = render(paths + ["-m", "roc", "-r", gen.fmt_num(thr), "-b", bin_type])
    if r.kind != "ok":
        return ctx.fail("roc:%s:%s" % (r.kind, r.site or "rejected"))
    lbl = lines_by_label(fig)
    levels = [k / 10.0 for k in range(11)]
    for i, ai in enumerate(inputs):
        ls = one_line(ctx, lbl, ai.name, "roc")
        if not ls:
            continue
        rows = event_rows(ref, i, thr, bin_type)
        exp = [(1.0, 1.0)]
        for lv in levels:
            a = sum(1 for o, p in rows if p >= lv and o == 1)
            b = sum(1 for o, p in rows if p >= lv and o == 0)
            c = sum(1 for o, p in rows if not p >= lv and o == 1)
            d = sum(1 for o, p in rows if not p >= lv and o == 0)
            if a + c > 0 and b + d > 0:
                exp.append((b / float(b + d), a / float(a + c)))
            else:
                exp.append((float("nan"), float("nan")))
        exp.append((0.0, 0.0))
        ctx.require(same_points(exp, list(zip(ls[0][0], ls[0][1]))), "roc:points", input=ai.name, expected=exp, actual=list(zip(ls[0][0].tolist(), ls[0][1].tolist())))


def d_points(ctx, inputs, paths, ref, opt):
    which = opt
    argv = paths + ["-m", which] + (["-r", "2", "-simple"] if which == "performance" else [])
    r, fig, out = render(argv)
    if r.kind != "ok":
        return ctx.fail("%s:%s:%s" % (which, r.kind, r.site or "rejected"))
    lbl = lines_by_label(fig)
    for i, ai in enumerate(inputs):
        ls = one_line(ctx, lbl, ai.name, which)
        if not ls:
            continue
        pairs = ref.request(["obs", "fcst"], i, "no", 0)
        o = [p[0] for p in pairs]
        f = [p[1] for p in pairs]
        got = (float(ls[0][0][0]), float(ls[0][1][0]))
        if which == "taylor":
            rho = MD.pearson(o, f)
            sf = MD.metric("fcststddev", o, f)
            exp = (sf * rho, sf * math.sqrt(max(0.0, 1 - rho * rho)))
            ctx.require(same_points([exp], [got]), "taylor:point", input=ai.name, expected=exp, actual=got)
        elif which == "error":
            bias = MD.metric("bias", o, f)
            rmse = MD.metric("rmse", o, f)
            crmse = math.sqrt(max(0.0, rmse ** 2 - bias ** 2))
            ctx.require(same_points([(crmse, bias)], [got]) or same_points([(crmse, -bias)], [got]), "error:point", input=ai.name, expected=(crmse, bias), actual=got)
        else:
            iv = (2.0, float("inf"), False, False)
            far = RS.score(ref, "far", i, "no", 0, iv=iv)
            hit = RS.score(ref, "hit", i, "no", 0, iv=iv)
            exp = (nan(None if far is None else 1 - far), nan(hit))
            ctx.require(same_points([exp], [got]), "performance:point", input=ai.name, expected=exp, actual=got)


def d_spreadskill(ctx, inputs, paths, ref, opt):
    qs = opt
    edges = [0.0, 1.0, 2.0, 3.0, 6.0]
    r, fig, out = render(paths + ["-m", "spreadskill", "-r", "0,1,2,3,6", "-q", ",".join(gen.fmt_num(q) for q in qs)])
    if r.kind != "ok":
        return ctx.fail("spreadskill:%s:%s" % (r.kind, r.site or "rejected"))
    lbl = lines_by_label(fig)
    lo, hi = min(qs), max(qs)
    for i, ai in enumerate(inputs):
        ls = one_line(ctx, lbl, ai.name, "spreadskill")
        if not ls:
            continue
        rows = ref.request(["obs", "fcst", ("q", lo), ("q", hi)], i, "no", 0)
        exp = [(float("nan"), float("nan"))]
        for j in range(1, len(edges)):
            sel = [(o, f, a, b) for o, f, a, b in rows if edges[j - 1] < b - a <= edges[j]]
            if sel:
                exp.append((MP._mean([b - a for o, f, a, b in sel]), math.sqrt(MP._mean([(o - f) ** 2 for o, f, a, b in sel]))))
            else:
                exp.append((float("nan"), float("nan")))
        ctx.require(same_points(exp, list(zip(ls[0][0], ls[0][1]))), "spreadskill:curve", input=ai.name, expected=exp, actual=list(zip(ls[0][0].tolist(), ls[0][1].tolist())),
                    quantiles=list(qs))


def d_freq_marginal(ctx, inputs, paths, ref, opt):
    which = opt
    if which == "freq":
        r, fig, out = render(paths + ["-m", "freq", "-r", "0,1,2,3,10"])
    else:
        r, fig, out = render(paths + ["-m", "marginal", "-r", "1,2,3"])
    if r.kind != "ok":
        return ctx.fail("%s:%s:%s" % (which, r.kind, r.site or "rejected"))
    lbl = lines_by_label(fig)
    for i, ai in enumerate(inputs):
        ls = one_line(ctx, lbl, ai.name, which)
        if not ls:
            continue
        if which == "freq":
            pairs = ref.request(["obs", "fcst"], i, "no", 0)
            edges = [0, 1, 2, 3, 10]
            exp = [sum(1 for o, f in pairs if edges[j] < f <= edges[j + 1]) / float(len(pairs)) for j in range(4)]
            xs = [(edges[j] + edges[j + 1]) / 2.0 for j in range(4)]
        else:
            exp, xs = [], [1.0, 2.0, 3.0]
            for t in xs:
                rows = ref.request(["obs", ("p", t)], i, "no", 0)
                exp.append(MP._mean([1 - p for o, p in rows]))       # default bin type 'above': P(X > t)
        ctx.require(same_points(list(zip(xs, exp)), list(zip(ls[0][0], ls[0][1]))), "%s:line" % which, input=ai.name, expected=exp, actual=ls[0][1].tolist())


def d_bsdecomp(ctx, inputs, paths, ref, opt):
    r, fig, out = render(paths + ["-m", "bsdecomp", "-r", "2", "-x", "no"])
    if r.kind != "ok":
        return ctx.fail("bsdecomp:%s:%s" % (r.kind, r.site or "rejected"))
    lbl = lines_by_label(fig)
    for i, ai in enumerate(inputs):
        ls = one_line(ctx, lbl, ai.name, "bsdecomp")
        if not ls:
            continue
        iv = (2.0, float("inf"), False, False)
        exp = (RS.score(ref, "bsrel", i, "no", 0, iv=iv), RS.score(ref, "bsres", i, "no", 0, iv=iv))
        ctx.require(same_points([exp], [(ls[0][0][0], ls[0][1][0])]), "bsdecomp:point", input=ai.name, expected=exp, actual=(float(ls[0][0][0]), float(ls[0][1][0])))


def d_map(ctx, inputs, paths, ref, opt):
    metric = opt
    r, fig, out = render(paths + ["-m", metric, "-type", "map"])
    if r.kind != "ok":
        return ctx.fail("map:%s:%s" % (r.kind, r.site or "rejected"))
    import matplotlib.collections
    panels = [ax for ax in fig.axes if any(isinstance(c, matplotlib.collections.PathCollection) for c in ax.collections)]
    if not ctx.require(len(panels) == len(inputs), "map:panel-count", expected=len(inputs), actual=len(panels)):
        return
    for i, (ai, ax) in enumerate(zip(inputs, panels)):
        pc = [c for c in ax.collections if isinstance(c, matplotlib.collections.PathCollection)][0]
        off = np.asarray(pc.get_offsets(), dtype=float)
        col = np.asarray(pc.get_array(), dtype=float)
        exp = []
        for k, m in enumerate(ref.locmeta):
            s = RS.score(ref, metric, i, "location", k)
            if s is not None and not math.isnan(s):
                exp.append((m[2], m[1], s))
        got = [(float(a), float(b), float(c)) for (a, b), c in zip(off, col)]
        ok = len(exp) == len(got) and all(abs(e[0] - g[0]) < 1e-6 and abs(e[1] - g[1]) < 1e-6 and abs(e[2] - g[2]) < 1e-6 for e, g in zip(sorted(exp), sorted(got)))
        ctx.require(ok, "map:points", input=ai.name, expected=exp, actual=got)
        if len(inputs) > 1:
            ctx.require(ax.get_title() == ai.name, "map:panel-order", expected=ai.name, actual=ax.get_title())


def d_timeseries(ctx, inputs, paths, ref, opt):
    r, fig, out = render(paths + ["-m", "timeseries"])
    if r.kind != "ok":
        return ctx.fail("timeseries:%s:%s" % (r.kind, r.site or "rejected"))
    ax = fig.axes[0]
    lines = ax.get_lines()
    # forecast lines: one per (input, init time): x = init + lead/24 (days), y = mean over locations
    for i, ai in enumerate(inputs):
        allv = ref.request_all(["fcst"], i)
        for t in ref.T:
            xs = [t / 86400.0 + l / 24.0 for l in ref.L]
            ys = []
            for l in ref.L:
                vals = [allv[(t, l, s)][0] for s in ref.S if allv[(t, l, s)] is not None]
                ys.append(MP._mean(vals) if vals else float("nan"))
            found = any(same_points(list(zip(xs, ys)), list(zip(ln.get_xdata(), ln.get_ydata()))) for ln in lines)
            if not found:
                ctx.fail("timeseries:forecast-line-missing", input=ai.name, init_time=t, expected=ys)
                return


def d_cond(ctx, inputs, paths, ref, opt):
    edges = [0.0, 1.0, 2.0, 3.0, 10.0]
    r, fig, out = render(paths + ["-m", "cond", "-r", "0,1,2,3,10"])
    if r.kind != "ok":
        return ctx.fail("cond:%s:%s" % (r.kind, r.site or "rejected"))
    lbl = lines_by_label(fig)
    for i, ai in enumerate(inputs):
        pairs = ref.request(["obs", "fcst"], i, "no", 0)
        for tag, key, other in (("(F|O)", 0, 1), ("(O|F)", 1, 0)):
            ls = one_line(ctx, lbl, "%s %s" % (ai.name, tag), "cond")
            if not ls:
                continue
            x, y = ls[0][0], ls[0][1]
            cond_axis, mean_axis = (x, y) if tag == "(F|O)" else (y, x)
            for j in range(4):
                sel = [p for p in pairs if edges[j] < p[key] <= edges[j + 1]]
                if not sel:
                    ctx.require(math.isnan(float(mean_axis[j])), "cond:empty-bin-not-missing", label=tag, bin=j, actual=float(mean_axis[j]))
                    continue
                e = MP._mean([p[other] for p in sel])
                ctx.require(abs(float(mean_axis[j]) - e) < 1e-9, "cond:conditional-mean", label="%s %s" % (ai.name, tag), bin=j, expected=e, actual=float(mean_axis[j]))
                ctx.require(edges[j] < float(cond_axis[j]) <= edges[j + 1], "cond:conditioning-value-outside-its-bin", label=tag, bin=j, actual=float(cond_axis[j]))


def d_discrimination(ctx, inputs, paths, ref, opt):
    thr, bin_type = opt
    r, fig, out = render(paths + ["-m", "discrimination", "-r", gen.fmt_num(thr), "-b", bin_type])
    if r.kind != "ok":
        return ctx.fail("discrimination:%s:%s" % (r.kind, r.site or "rejected"))
    bars = rects(fig.axes[0])
    import matplotlib.container
    conts = [c for c in fig.axes[0].containers if isinstance(c, matplotlib.container.BarContainer)]
    bylabel = {str(c.get_label()): [p.get_height() for p in c.patches] for c in conts}
    for i, ai in enumerate(inputs):
        rows = event_rows(ref, i, thr, bin_type)
        for obs_value, suffix in ((1.0, " observed"), (0.0, " not observed")):
            got = bylabel.get(ai.name + suffix)
            if not ctx.require(got is not None and len(got) == 10, "discrimination:series-missing", label=ai.name + suffix, labels=sorted(bylabel)):
                continue
            sel = [p for o, p in rows if o == obs_value]
            if not sel:
                continue
            exp_incl = [100.0 * sum(1 for p in sel if MP.prob_bin(round(p, 9)) == j) / len(sel) for j in range(10)]
            ok = all(abs(a - b) < 1e-6 for a, b in zip(exp_incl, got))
            if not ok:
                exp_excl = [100.0 * sum(1 for p in sel if p < 1.0 and MP.prob_bin(round(p, 9)) == j) / len(sel) for j in range(10)]
                if all(abs(a - b) < 1e-6 for a, b in zip(exp_excl, got)) and any(p == 1.0 for p in sel):
                    ctx.fail("discrimination:case-not-in-exactly-one-bin", note="cases with probability exactly 1 are in no bin", label=ai.name + suffix, total=sum(got))
                else:
                    ctx.fail("discrimination:bar-heights", label=ai.name + suffix, expected=exp_incl, actual=got)


def d_murphy(ctx, inputs, paths, ref, opt):
    thr = opt
    r, fig, out = render(paths + ["-m", "murphy", "-r", gen.fmt_num(thr)])
    if r.kind != "ok":
        return ctx.fail("murphy:%s:%s" % (r.kind, r.site or "rejected"))
    lbl = lines_by_label(fig)
    thetas = [k / 20.0 for k in range(21)]
    for i, ai in enumerate(inputs):
        ls = one_line(ctx, lbl, ai.name, "murphy")
        if not ls:
            continue
        rows = event_rows(ref, i, thr, "above")
        n = float(len(rows))
        exp = []
        for th in thetas:
            s = 2 * th * sum(1 for o, p in rows if p > th and o == 0) / n + 2 * (1 - th) * sum(1 for o, p in rows if p < th and o == 1) / n + \
                2 * th * (1 - th) * sum(1 for o, p in rows if p == th) / n
            exp.append(s)
        ctx.require(same_points(list(zip(thetas, exp)), list(zip(ls[0][0], ls[0][1])), tol=1e-5), "murphy:elementary-scores", input=ai.name, expected=exp[:6], actual=ls[0][1].tolist()[:6])


def d_change(ctx, inputs, paths, ref, opt):
    edges = [-10.0, -1.0, 0.0, 1.0, 10.0]
    r, fig, out = render(paths + ["-m", "change", "-r", "-10,-1,0,1,10"])
    if r.kind != "ok":
        return ctx.fail("change:%s:%s" % (r.kind, r.site or "rejected"))
    lbl = lines_by_label(fig)
    for i, ai in enumerate(inputs):
        ls = one_line(ctx, lbl, ai.name, "change")
        if not ls:
            continue
        allv = ref.request_all(["obs", "fcst"], i)
        items = []
        for ti in range(1, len(ref.T)):
            for l in ref.L:
                for sloc in ref.S:
                    a, b = allv[(ref.T[ti - 1], l, sloc)], allv[(ref.T[ti], l, sloc)]
                    if a is None or b is None:
                        continue
                    items.append((b[0] - a[0], abs(b[0] - b[1])))
        exp = []
        for j in range(4):
            sel = [it for it in items if edges[j] < it[0] <= edges[j + 1]]
            exp.append((MP._mean([c for c, e in sel]), MP._mean([e for c, e in sel])) if sel else (float("nan"), float("nan")))
        ctx.require(same_points(exp, list(zip(ls[0][0], ls[0][1]))), "change:curve", input=ai.name, expected=exp, actual=list(zip(ls[0][0].tolist(), ls[0][1].tolist())))


def d_against(ctx, inputs, paths, ref, opt):
    if len(inputs) != 2:
        return
    r, fig, out = render(paths + ["-m", "against"])
    if r.kind != "ok":
        return ctx.fail("against:%s:%s" % (r.kind, r.site or "rejected"))
    ax = fig.axes[0]
    crosses = [l for l in ax.get_lines() if l.get_marker() == "x"]
    squares = [l for l in ax.get_lines() if l.get_marker() == "s"]
    f0 = ref.request_all(["fcst"], 0)
    f1 = ref.request_all(["fcst"], 1)
    exp_all = [(f0[c][0], f1[c][0]) for c in ref.cases() if f0[c] is not None and f1[c] is not None]
    o0 = ref.request_all(["obs", "fcst"], 0)
    o1 = ref.request_all(["obs", "fcst"], 1)
    exp_obs = [(o0[c][1], o1[c][1]) for c in ref.cases() if o0[c] is not None and o1[c] is not None]
    if ctx.require(len(crosses) == 1 and len(squares) == 1, "against:series-missing", crosses=len(crosses), squares=len(squares)):
        ctx.require(same_points(exp_all, list(zip(crosses[0].get_xdata(), crosses[0].get_ydata())), ordered=False), "against:all-forecast-pairs", expected=len(exp_all),
                    actual=len(crosses[0].get_xdata()))
        ctx.require(same_points(exp_obs, list(zip(squares[0].get_xdata(), squares[0].get_ydata())), ordered=False), "against:pairs-with-observations", expected=len(exp_obs),
                    actual=len(squares[0].get_xdata()))
    ctx.require(ax.get_xlabel() == inputs[0].name and ax.get_ylabel() == inputs[1].name, "against:axes-order", xlabel=ax.get_xlabel(), ylabel=ax.get_ylabel())


PRECIP_FT = [0, 1e-7, 1e-6, 1e-5, 1e-4, 0.001, 0.005, 0.01, 0.05, 0.1, 0.2, 0.3, 0.5, 1, 2, 3, 5, 10, 20, 100]


def d_droc(ctx, inputs, paths, ref, opt):
    which, thr = opt
    r, fig, out = render(paths + ["-m", which, "-r", gen.fmt_num(thr), "-simple"])
    if r.kind != "ok":
        return ctx.fail("%s:%s:%s" % (which, r.kind, r.site or "rejected"))
    lbl = lines_by_label(fig)
    fts = [thr] if which == "droc0" else PRECIP_FT
    for i, ai in enumerate(inputs):
        ls = one_line(ctx, lbl, ai.name, which)
        if not ls:
            continue
        pairs = ref.request(["obs", "fcst"], i, "no", 0)
        exp = [(1.0, 1.0)]
        for ft in fts:
            a = sum(1 for o, f in pairs if f > ft and o > thr)
            b = sum(1 for o, f in pairs if f > ft and not o > thr)
            c = sum(1 for o, f in pairs if not f > ft and o > thr)
            d = sum(1 for o, f in pairs if not f > ft and not o > thr)
            exp.append((b / float(b + d) if b + d else float("nan"), a / float(a + c) if a + c else float("nan")))
        exp.append((0.0, 0.0))
        got = list(zip(np.asarray(ls[0][0]).reshape(-1), np.asarray(ls[0][1]).reshape(-1)))
        ctx.require(same_points(exp, got), "%s:points" % which, input=ai.name, expected=exp[:5], actual=[(float(a), float(b)) for a, b in got][:5])


def d_invreliability(ctx, inputs, paths, ref, opt):
    q = opt
    edges = [-10.0, 0.0, 1.0, 2.0, 3.0, 10.0]
    r, fig, out = render(paths + ["-m", "invreliability", "-q", gen.fmt_num(q), "-r", ",".join(gen.fmt_num(e) for e in edges)])
    if r.kind != "ok":
        return ctx.fail("invreliability:%s:%s" % (r.kind, r.site or "rejected"))
    lbl = lines_by_label(fig)
    for i, ai in enumerate(inputs):
        ls = one_line(ctx, lbl, ai.name, "invreliability")
        if not ls:
            continue
        rows = ref.request(["obs", ("q", q)], i, "no", 0)
        exp = []
        for j in range(len(edges) - 1):
            sel = [(o, x) for o, x in rows if edges[j] <= x < edges[j + 1]]
            if sel:
                exp.append((MP._mean([x for o, x in sel]), MP._mean([1.0 if o <= x else 0.0 for o, x in sel]) if len(sel) >= 2 else float("nan")))
            else:
                exp.append((0.0, float("nan")))
        main = [g for g in ls if g[2].get_title() != "Number"]
        ctx.require(same_points(exp, list(zip(main[0][0], main[0][1]))), "invreliability:curve", input=ai.name, expected=exp, actual=list(zip(main[0][0].tolist(), main[0][1].tolist())))


def great_circle_m(lat1, lon1, lat2, lon2, radius=6.371e6):
    """haversine distance (an independent formula for the same sphere)"""
    if lat1 == lat2 and lon1 == lon2:
        return 0.0
    p1, p2 = math.radians(lat1), math.radians(lat2)
    dp, dl = p2 - p1, math.radians(lon2 - lon1)
    a = math.sin(dp / 2) ** 2 + math.cos(p1) * math.cos(p2) * math.sin(dl / 2) ** 2
    return 2 * radius * math.asin(min(1.0, math.sqrt(a)))


def sample_cov(xs, ys):
    n = len(xs)
    mx, my = MD._mean(xs), MD._mean(ys)
    return math.fsum((a - mx) * (b - my) for a, b in zip(xs, ys)) / (n - 1)


def d_autocorr(ctx, inputs, paths, ref, opt):
    metric, axis = opt if isinstance(opt, tuple) else ("autocorr", opt)
    shared = False
    if axis.endswith("-shared"):
        # two of the three stations share a latitude and an elevation: pairs of DIFFERENT series have zero separation
        axis = axis[:-len("-shared")]
        shared = True
        l0 = inputs[0].locs
        locs = [l0[0], (l0[1][0], l0[0][1], l0[1][2], l0[0][3]), l0[2]]
        full = len(inputs[0].fields["fcst"]) == len(inputs[0].positions())
        inputs = [datasets.full_input(ai.name, ai.times, ai.leads, locs, k=k, seed=core.seed(), missing=([] if full else [("fcst", (0, 1, 1))] if k == 0 else [("obs", (2, 0, 2))]))
                  for k, ai in enumerate(inputs)]
        paths = write(inputs, "c16-auto-shared-%d-%d" % (len(inputs), int(full)))
        ref = RD.RefData(inputs)
        ctx.flag("zero-separation-pairs")
    # "+lines": explicit distance bins (-r) and quantile levels (-q) for the black quantile lines
    qlines = None
    if axis.endswith("+lines"):
        axis = axis[:-len("+lines")]
        qlines = ([0.0, 7.0, 19.0, 31.0], [0.1, 0.5, 0.9])
    r, fig, out = render(paths + ["-m", metric, "-x", axis] + (["-r", ",".join(gen.fmt_num(e) for e in qlines[0]), "-q", ",".join(gen.fmt_num(q) for q in qlines[1])] if qlines else []))
    if r.kind != "ok":
        return ctx.fail("%s:%s:%s" % (metric, r.kind, r.site or "rejected"))
    lbl = lines_by_label(fig)
    if axis == "leadtime":
        coords = list(ref.L)
    elif axis == "time":
        coords = list(ref.T)
    else:
        coords = list(range(len(ref.S)))
    meta = ref.locmeta

    def dist(a, b):
        if axis == "leadtime":
            return abs(a - b)
        if axis == "time":
            return abs(a - b) / 3600.0
        if axis == "location":
            return great_circle_m(meta[a][1], meta[a][2], meta[b][1], meta[b][2]) / 1000.0
        return abs(meta[a][{"lat": 1, "lon": 2, "elev": 3}[axis]] - meta[b][{"lat": 1, "lon": 2, "elev": 3}[axis]])

    def case(u, a):
        if axis == "leadtime":
            return (u[0], a, u[1])
        if axis == "time":
            return (a, u[0], u[1])
        return (u[0], u[1], ref.S[a])
    if axis == "leadtime":
        others = [(t, s2) for t in ref.T for s2 in ref.S]
    elif axis == "time":
        others = [(l, s2) for l in ref.L for s2 in ref.S]
    else:
        others = [(t, l) for t in ref.T for l in ref.L]
    for i, ai in enumerate(inputs):
        ls = one_line(ctx, lbl, ai.name, metric)
        if not ls:
            continue
        allv = ref.request_all(["obs", "fcst"], i)
        exp = []
        for a in coords:
            for b in coords:
                xs, ys = [], []
                for u in others:
                    ca, cb = case(u, a), case(u, b)
                    if allv[ca] is not None and allv[cb] is not None:
                        xs.append(allv[ca][0] - allv[ca][1])
                        ys.append(allv[cb][0] - allv[cb][1])
                if len(xs) < 2:
                    c = None
                elif metric == "autocorr":
                    c = MD.pearson(xs, ys)
                else:
                    c = sample_cov(xs, ys)
                exp.append((dist(a, b), float("nan") if c is None else c))
        ctx.require(same_points(exp, list(zip(ls[0][0], ls[0][1])), tol=1e-6), "%s:points" % metric, input=ai.name, axis=axis, expected=exp[:4],
                    actual=list(zip(ls[0][0].tolist(), ls[0][1].tolist()))[:4])
        # the black lines: per distance bin [e_i, e_i+1) the q-th percentile (linear interpolation) of the pair statistics
        if qlines:
            edges, levels = qlines
            all_lines = list(ls[0][2].get_lines())
            start = [k for k, l in enumerate(all_lines) if str(l.get_label()) == ai.name][0]
            black = [l for l in all_lines[start + 1:start + 1 + len(levels)]]
            ctx.flag("quantile-lines")
            for q, l in zip(levels, black):
                expl = []
                for b in range(len(edges) - 1):
                    sel = [(x, y) for x, y in exp if edges[b] <= x < edges[b + 1]]
                    ys = [y for x, y in sel if not math.isnan(y)]
                    if not sel:
                        expl.append((float("nan"), float("nan")))
                    else:
                        expl.append((MD._mean([x for x, y in sel]), AG.quantile_linear(ys, q) if ys else float("nan")))
                gotl = list(zip(np.asarray(l.get_xdata(), dtype=float).tolist(), np.asarray(l.get_ydata(), dtype=float).tolist()))
                ctx.require(same_points(expl, gotl, tol=1e-6), "%s:quantile-line" % metric, input=ai.name, level=q, expected=expl, actual=gotl)
        # the large square at separation 0: the median over ALL pairs with zero separation (not only a series with itself)
        zero = [y for x, y in exp if x == 0]
        sq = [l for l in ls[0][2].get_lines() if l.get_marker() == "s" and len(l.get_xdata()) == 1 and float(l.get_xdata()[0]) == 0.0]
        if len(sq) == len(inputs) and zero:
            zs = sorted(zero)
            med = float("nan") if any(math.isnan(z) for z in zs) else (zs[len(zs) // 2] if len(zs) % 2 else 0.5 * (zs[len(zs) // 2 - 1] + zs[len(zs) // 2]))
            gy = float(sq[i].get_ydata()[0])
            ok = (math.isnan(med) and math.isnan(gy)) or abs(med - gy) <= 1e-6 * max(1.0, abs(med))
            ctx.require(ok, "%s:zero-separation-point" % metric, input=ai.name, axis=axis, expected=med, actual=gy, pairs=len(zero))


def d_igncontrib(ctx, inputs, paths, ref, opt):
    thr, bin_type = opt
    r, fig, out = render(paths + ["-m", "igncontrib", "-r", gen.fmt_num(thr), "-b", bin_type])
    if r.kind != "ok":
        return ctx.fail("igncontrib:%s:%s" % (r.kind, r.site or "rejected"))
    lbl = lines_by_label(fig)
    count_axes = [ax for ax in fig.axes if ax.get_ylabel() == "N"]
    nb = 11
    for i, ai in enumerate(inputs):
        rows = event_rows(ref, i, thr, bin_type)
        exp_n, exp_x, exp_y = [], [], []
        for j in range(nb):
            lo, hi = j / float(nb), (j + 1) / float(nb)
            sel = [(o, p) for o, p in rows if (lo <= p < hi) or (j == nb - 1 and p == 1.0)]
            exp_n.append(float(len(sel)))
            if sel:
                exp_x.append(MP._mean([p for o, p in sel]))
                tot = 0.0
                for o, p in sel:
                    q = p if o == 1 else 1 - p
                    tot += float("inf") if q <= 0 else -math.log(q, 2)
                exp_y.append(tot / len(rows) * nb)
            else:
                exp_x.append(float("nan"))
                exp_y.append(float("nan"))
        if count_axes and len(count_axes[0].get_lines()) >= len(inputs):
            ln = count_axes[0].get_lines()[i]
            got_n = [float(v) for v in ln.get_ydata()]
            if abs(sum(got_n) - len(rows)) > 1e-9:
                ctx.fail("igncontrib:case-not-in-exactly-one-bin", in_bins=sum(got_n), valid_cases=len(rows), probabilities_equal_to_1=sum(1 for o, p in rows if p == 1.0))
                continue
            ctx.require(all(abs(a - b) < 1e-9 for a, b in zip(exp_n, got_n)), "igncontrib:bin-counts", input=ai.name, expected=exp_n, actual=got_n)
        ls = one_line(ctx, lbl, ai.name, "igncontrib")
        if ls:
            got = list(zip(ls[0][0], ls[0][1]))
            exp = list(zip(exp_x, exp_y))
            ok = len(exp) == len(got)
            for (a, b), (c, d) in zip(exp, got):
                for u, v in ((a, c), (b, d)):
                    if (math.isnan(u) and math.isnan(v)) or (math.isinf(u) and math.isinf(v)) or (not math.isnan(u) and not math.isnan(v) and abs(u - v) <= 1e-6 * max(1, abs(u))):
                        continue
                    ok = False
            ctx.require(ok, "igncontrib:curve", input=ai.name, expected=exp, actual=[(float(a), float(b)) for a, b in got])


def d_economicvalue(ctx, inputs, paths, ref, opt):
    thr, bin_type = opt
    r, fig, out = render(paths + ["-m", "economicvalue", "-r", gen.fmt_num(thr), "-b", bin_type])
    if r.kind != "ok":
        return ctx.fail("economicvalue:%s:%s" % (r.kind, r.site or "rejected"))
    lbl = lines_by_label(fig)
    ratios = [(k / 20.0) ** 3 for k in range(21)]
    for i, ai in enumerate(inputs):
        ls = one_line(ctx, lbl, ai.name, "economicvalue")
        if not ls:
            continue
        rows = event_rows(ref, i, thr, bin_type)
        n = float(len(rows))
        clim = sum(o for o, p in rows) / n
        exp = []
        for c in ratios:
            # expense of acting on the forecast: protect (cost c) when p >= c, otherwise suffer the loss 1 when the event occurs
            total = (c * sum(1 for o, p in rows if p >= c) + sum(1 for o, p in rows if p < c and o == 1)) / n
            clim_cost = min(clim, c)
            perfect = clim * c
            exp.append(0.0 if clim_cost == perfect else (clim_cost - total) / (clim_cost - perfect))
        ctx.require(same_points(list(zip(ratios, exp)), list(zip(ls[0][0], ls[0][1])), tol=1e-6), "economicvalue:curve", input=ai.name, expected=exp[:6], actual=ls[0][1].tolist()[:6])


def d_rank(ctx, inputs, paths, ref, opt):
    metric, axis = opt
    F = len(inputs)
    if F == 1:
        return
    if F == 3 and (metric, axis) == ("mae", "leadtime"):
        # three inputs whose order changes cyclically with the lead time (A<B<C, C<A<B, B<C<A): a permutation that is not its own
        # inverse, so "which input has rank j" and "which rank has input i" cannot be confused
        base = [0.5, 1.0, 2.0]
        new = []
        for k, ai in enumerate(inputs):
            c = ai.copy()
            for pos in list(c.fields["fcst"]):
                if pos in c.fields["obs"]:
                    c.fields["fcst"][pos] = c.fields["obs"][pos] + base[(k + pos[1]) % 3] * (1 if (pos[0] + pos[2]) % 2 else -1)
            new.append(c)
        inputs = new
        paths = write(inputs, "c16-rank3-%d" % len(inputs[0].fields["fcst"]))
        ref = RD.RefData(inputs)
        ctx.flag("rank-cycle")
    r, fig, out = render(paths + ["-m", metric, "-type", "rank", "-x", axis])
    if r.kind != "ok":
        return ctx.fail("rank:%s:%s" % (r.kind, r.site or "rejected"))
    import matplotlib.container
    ax = fig.axes[0]
    conts = {str(c.get_label()): [p.get_height() for p in c.patches] for c in ax.containers if isinstance(c, matplotlib.container.BarContainer)}
    nsl = len(ref.axis_values(axis))
    y = [[RS.score(ref, metric, i, axis, k) for i in range(F)] for k in range(nsl)]
    valid = [row for row in y if all(v is not None and not math.isnan(v) for v in row)]
    if not valid:
        return
    flat = [v for row in y for v in row if v is not None and not math.isnan(v)]
    mean = sum(flat) / len(flat)
    std = math.sqrt(sum((v - mean) ** 2 for v in flat) / len(flat))
    positive = metric in ("corr",)
    counts = [[0] * F for _ in range(F)]       # counts[input][rank]
    none = [0] * F
    for row in valid:
        if abs(row[0] - row[1]) < std / 50:
            # the first two inputs are 'similar': the slice is attributed to nobody
            for j in range(F):
                none[j] += 1
            continue
        if any(abs(row[a] - row[b]) < 1e-12 for a in range(F) for b in range(a + 1, F)):
            return                               # exact ties among the other inputs: the order is not defined
        order = sorted(range(F), key=lambda i: row[i])             # smallest score first
        if positive:
            order = order[::-1]
        for rank, who in enumerate(order):
            counts[who][rank] += 1
    n = float(len(valid))
    exp = {inputs[i].name: [c / n for c in counts[i]] for i in range(F)}
    exp["None"] = [c / n for c in none]
    for label, e in exp.items():
        got = conts.get(label)
        if not ctx.require(got is not None and len(got) == F, "rank:series-missing", label=label, labels=sorted(conts)):
            continue
        ctx.require(all(abs(a - b) < 1e-9 for a, b in zip(e, got)), "rank:fractions", label=label, metric=metric, axis=axis, inputs=F, expected=e, actual=got)


def _event(x, thr, bin_type):
    return {"above": x > thr, "above=": x >= thr, "below": x < thr, "below=": x <= thr}[bin_type]


def _nanmean(xs):
    xs = [x for x in xs if x is not None]
    return MD._mean(xs) if xs else None


def fss_locs(seed):
    """six stations on a meridian at 0, 1.1, 3.3, 11, 55 and 333 km from the first: neighbourhood sizes change with the scale"""
    base = 100 + (seed % 5) * 10
    return [(base + 7 * i, 60.0 + d, 10.0, 100.0 + 10 * i) for i, d in enumerate((0.0, 0.01, 0.03, 0.1, 0.5, 3.0))]


def d_fss(ctx, inputs, paths, ref, opt):
    axis, thr, bin_type = opt
    if axis == "location":
        # own dataset: the shared one has too few stations for any neighbourhood to qualify
        locs = fss_locs(core.seed())
        new = []
        for k, ai in enumerate(inputs):
            miss = [(f, pos) for f in ai.fields for pos in ai.positions() if pos not in ai.fields[f]] if False else []
            new.append(datasets.full_input(ai.name, ai.times, ai.leads, locs, k=k, seed=core.seed(),
                                           missing=([("fcst", (0, 1, 1)), ("obs", (2, 0, 4))] if k == 0 and len(inputs[0].fields["fcst"]) < len(inputs[0].positions()) else [])))
        inputs = new
        paths = write(inputs, "c16-fss-%d-%d" % (len(inputs), len(inputs[0].fields["fcst"])))
        ref = RD.RefData(inputs)
    r, fig, out = render(paths + ["-m", "fss", "-x", axis, "-r", gen.fmt_num(thr), "-b", bin_type])
    if r.kind != "ok":
        return ctx.fail("fss:%s:%s" % (r.kind, r.site or "rejected"))
    lbl = lines_by_label(fig)
    for i, ai in enumerate(inputs):
        ls = one_line(ctx, lbl, ai.name, "fss")
        if not ls:
            continue
        allv = ref.request_all(["obs", "fcst"], i)
        ev = {c: (None if v is None else (float(_event(v[0], thr, bin_type)), float(_event(v[1], thr, bin_type)))) for c, v in allv.items()}
        exp = []
        if axis == "leadtime":
            L = list(ref.L)
            scales = sorted(set(abs(a - b) for a in L for b in L))
            for sc in scales:
                if sc == 0:
                    exp.append((sc, float("nan")))
                    continue
                sq, fo_all = [], []
                for a in range(len(L)):
                    for b in range(len(L)):
                        if L[b] - L[a] != sc:
                            continue
                        for t in ref.T:
                            for s2 in ref.S:
                                win = [ev[(t, L[m], s2)] for m in range(a, b + 1)]
                                fo = _nanmean([None if w is None else w[0] for w in win])
                                ff = _nanmean([None if w is None else w[1] for w in win])
                                if fo is not None:
                                    fo_all.append(fo)
                                    sq.append((fo - ff) ** 2)
                exp.append((sc, _bss(sq, fo_all)))
        else:
            meta = ref.locmeta
            n = len(meta)
            for sc in (2, 4, 8, 16, 32, 64, 128, 256, 512, 1024):
                bs_l, mo_l = [], []
                for l in range(n):
                    nb = [m for m in range(n) if great_circle_m(meta[l][1], meta[l][2], meta[m][1], meta[m][2]) < sc * 1000.0]
                    if len(nb) <= 3:
                        continue
                    sq, fos = [], []
                    for t in ref.T:
                        for ld in ref.L:
                            cells = [ev[(t, ld, ref.S[m])] for m in nb]
                            fo = _nanmean([None if w is None else w[0] for w in cells])
                            ff = _nanmean([None if w is None else w[1] for w in cells])
                            if fo is not None:
                                fos.append(fo)
                                sq.append((fo - ff) ** 2)
                    if sq:
                        bs_l.append(MD._mean(sq))
                        mo_l.append(MD._mean(fos))
                if not mo_l:
                    exp.append((sc, float("nan")))
                    continue
                mo = MD._mean(mo_l)
                unc = mo * (1 - mo)
                exp.append((sc, (unc - MD._mean(bs_l)) / unc if unc > 0 else float("nan")))
            if any(not math.isnan(y) for x, y in exp) and any(math.isnan(y) for x, y in exp):
                ctx.flag("fss-scales")
        ctx.require(same_points(exp, list(zip(ls[0][0], ls[0][1])), tol=1e-5), "fss:points", input=ai.name, axis=axis, bin=bin_type, expected=exp,
                    actual=list(zip(ls[0][0].tolist(), ls[0][1].tolist())))


def _bss(sq, fo_all):
    if not sq:
        return float("nan")
    mo = MD._mean(fo_all)
    unc = mo * (1 - mo)
    return (unc - MD._mean(sq)) / unc if unc > 0 else float("nan")


def d_meteo(ctx, inputs, paths, ref, opt):
    qsel = opt
    argv = paths + ["-m", "meteo"] + (["-q", ",".join(gen.fmt_num(q) for q in qsel)] if qsel else [])
    r, fig, out = render(argv)
    if len(inputs) != 1:
        # a meteogram is for one input: anything else is refused
        ctx.require(r.kind == "exit" and r.code not in (0, None), "meteo:several-inputs-not-refused", kind=r.kind)
        return
    if r.kind != "ok":
        return ctx.fail("meteo:%s:%s" % (r.kind, r.site or "rejected"))
    import verif.util
    lbl = lines_by_label(fig)
    xs = [verif.util.unixtime_to_datenum(ref.T[0] + l * 3600) for l in ref.L]
    ctx.require(abs(xs[1] - xs[0] - (ref.L[1] - ref.L[0]) / 24.0) < 1e-9, "meteo:harness-datenum")

    def series(role):
        allv = ref.request_all([role], 0)
        mom, pooled = [], []
        for l in ref.L:
            per_loc = []
            flat = []
            for s2 in ref.S:
                v = [allv[(t, l, s2)][0] for t in ref.T if allv[(t, l, s2)] is not None]
                flat += v
                if v:
                    per_loc.append(MD._mean(v))
            mom.append(MD._mean(per_loc) if per_loc else float("nan"))
            pooled.append(MD._mean(flat) if flat else float("nan"))
        return mom, pooled
    want = [("Observed", "obs"), ("Forecast", "fcst")] + [("%g%%" % (q * 100), ("q", q)) for q in sorted(qsel or (0.1, 0.5, 0.9))]
    for label, role in want:
        ls = lbl.get(label)
        if not ctx.require(ls is not None and len(ls) == 1, "meteo:series-missing", label=label, labels=sorted(lbl)[:10]):
            continue
        mom, pooled = series(role)
        got = list(zip(ls[0][0].tolist(), ls[0][1].tolist()))
        # 'the average' over times and locations: the mean of the per-location time means (what is drawn) or the pooled mean
        ok = same_points(list(zip(xs, mom)), got, tol=1e-6) or same_points(list(zip(xs, pooled)), got, tol=1e-6)
        ctx.require(ok, "meteo:%s" % (role if isinstance(role, str) else "quantile"), label=label, expected=list(zip(xs, mom)), actual=got)
    extra = [k for k in lbl if k.endswith("%") and k not in [w[0] for w in want]]
    ctx.require(not extra, "meteo:quantile-lines-not-selected-by--q", extra=extra)


def scatter_by_label(fig):
    import matplotlib.collections
    out = {}
    for ax in fig.axes:
        for c in ax.collections:
            if isinstance(c, matplotlib.collections.PathCollection):
                out.setdefault(str(c.get_label()), []).append((np.asarray(c.get_offsets(), dtype=float).reshape(-1, 2), np.asarray(c.get_sizes(), dtype=float).reshape(-1)))
    return out


def _check_impact(ctx, tag, fig, names, contrib, worse="worse"):
    """contrib: {(x, y): value}; red series = first input worse (positive), blue = second input worse; areas proportional to |value|"""
    sc = scatter_by_label(fig)
    big = max([abs(v) for v in contrib.values()] + [0.0])
    for label, sign in (("%s is %s" % (names[0], worse), 1), ("%s is %s" % (names[1], worse), -1)):
        exp = sorted((k[0], k[1], abs(v) / big * 400.0) for k, v in contrib.items() if v * sign > 0)
        got_l = sc.get(label)
        if big == 0:
            continue
        if not ctx.require(got_l is not None and len(got_l) == 1, "%s:series-missing" % tag, label=label, labels=sorted(sc)):
            continue
        off, sizes = got_l[0]
        got = sorted((float(a), float(b), float(z)) for (a, b), z in zip(off, sizes)) if len(sizes) == len(off) else None
        ok = got is not None and len(got) == len(exp) and all(abs(e[0] - g[0]) < 1e-6 and abs(e[1] - g[1]) < 1e-6 and abs(e[2] - g[2]) < 1e-6 * 400 for e, g in zip(exp, got))
        ctx.require(ok, "%s:points" % tag, label=label, expected=exp[:6], actual=(got or [])[:6])


def d_impact(ctx, inputs, paths, ref, opt):
    lo, step, hi = opt
    r, fig, out = render(paths + ["-m", "mae", "-type", "impact", "-r", "%s:%s:%s" % (gen.fmt_num(lo), gen.fmt_num(step), gen.fmt_num(hi))])
    if len(inputs) != 2:
        ctx.require(r.kind == "exit" and r.code not in (0, None), "impact:needs-exactly-two-inputs", kind=r.kind)
        return
    if r.kind != "ok":
        return ctx.fail("impact:%s:%s" % (r.kind, r.site or "rejected"))
    edges = []
    v = lo
    while v <= hi + 1e-9:
        edges.append(v)
        v += step
    a0, a1 = ref.request_all(["obs", "fcst"], 0), ref.request_all(["obs", "fcst"], 1)
    contrib = {}
    nin = 0
    for c in ref.cases():
        if a0[c] is None or a1[c] is None:
            continue
        o, x, y = a0[c][0], a0[c][1], a1[c][1]
        bx = [j for j in range(len(edges) - 1) if edges[j] < x <= edges[j + 1]]
        by = [j for j in range(len(edges) - 1) if edges[j] < y <= edges[j + 1]]
        if bx and by:
            nin += 1
            key = ((edges[bx[0]] + edges[bx[0] + 1]) / 2.0, (edges[by[0]] + edges[by[0] + 1]) / 2.0)
            contrib[key] = contrib.get(key, 0.0) + (x - o) ** 2 - (y - o) ** 2
    if nin:
        ctx.flag("impact")
    _check_impact(ctx, "impact", fig, [ai.name for ai in inputs], contrib)


def d_mapimpact(ctx, inputs, paths, ref, opt):
    metric = opt
    r, fig, out = render(paths + ["-m", metric, "-type", "mapimpact"])
    if len(inputs) != 2:
        ctx.require(r.kind == "exit" and r.code not in (0, None), "mapimpact:needs-exactly-two-inputs", kind=r.kind)
        return
    if r.kind != "ok":
        return ctx.fail("mapimpact:%s:%s" % (r.kind, r.site or "rejected"))
    contrib = {}
    for k, m in enumerate(ref.locmeta):
        s0, s1 = RS.score(ref, metric, 0, "location", k), RS.score(ref, metric, 1, "location", k)
        if s0 is None or s1 is None or math.isnan(s0) or math.isnan(s1):
            continue
        d = s0 - s1
        if metric == "corr":         # positively oriented: the input with the lower score is the worse one
            d = -d
        contrib[(m[2], m[1])] = d
    _check_impact(ctx, "mapimpact", fig, [ai.name for ai in inputs], contrib)


DIAGRAMS = {
    "standard": (d_standard, [("mae", "leadtime"), ("mae", "location"), ("corr", "time"), ("ets", "leadtime"), ("bs", "leadtime"), ("rmse", "no"), ("bias", "month"), ("mae", "leadtimeday")]),
    "obsfcst": (d_obsfcst, ["leadtime", "time", "location", ("leadtime", (0.1, 0.9)), ("location", (0.9, 0.5, 0.1))]),
    "qq-quantiles": (d_qq_quantiles, [(None, (0.1, 0.9)), ("leadtime", (0.1, 0.5, 0.9)), ("location", (0.9, 0.1))]),
    "qq-scatter": (d_qq_scatter, [("qq", False), ("scatter", True), ("scatter", False)]),
    "hist-sort": (d_hist_sort, [("hist", "fcst"), ("sort", "fcst"), ("sort", "obs"), ("hist", "obs")]),
    "pithist": (d_pithist, [None]),
    "reliability": (d_reliability, [(2.0, "above"), (1.0, "below"), (3.0, "above="), (2.0, "above", (0.2, 0.4, 0.6, 0.8))]),
    "roc": (d_roc, [(2.0, "above"), (1.0, "below=")]),
    "points": (d_points, ["taylor", "error", "performance"]),
    "spreadskill": (d_spreadskill, [(0.1, 0.9), (0.9, 0.1)]),
    "freq-marginal": (d_freq_marginal, ["freq", "marginal"]),
    "bsdecomp": (d_bsdecomp, [None]),
    "map": (d_map, ["mae", "bias"]),
    "timeseries": (d_timeseries, [None]),
    "cond": (d_cond, [None]),
    "discrimination": (d_discrimination, [(2.0, "above"), (1.0, "below")]),
    "murphy": (d_murphy, [2.0, 1.0]),
    "change": (d_change, [None]),
    "against": (d_against, [None]),
    "droc": (d_droc, [("droc", 2.0), ("droc0", 2.0), ("droc", 1.0)]),
    "invreliability": (d_invreliability, [0.5, 0.1]),
    "autocorr": (d_autocorr, [("autocorr", "leadtime"), ("autocorr", "time"), ("autocorr", "location"), ("autocov", "leadtime"), ("autocov", "elev"), ("autocov", "lat"), ("autocorr", "lon"),
                             ("autocorr", "lat-shared"), ("autocov", "elev-shared"), ("autocorr", "leadtime+lines")]),
    "fss": (d_fss, [("leadtime", 2.0, "above"), ("location", 2.0, "above"), ("location", 1.0, "below=")]),
    "meteo": (d_meteo, [None, (0.9, 0.1)]),
    "impact": (d_impact, [(-4.1, 2.0, 7.9), (-0.1, 1.0, 5.9)]),
    "mapimpact": (d_mapimpact, ["mae", "corr"]),
    "igncontrib": (d_igncontrib, [(2.0, "above"), (1.0, "below")]),
    "economicvalue": (d_economicvalue, [(2.0, "above"), (1.0, "below")]),
    "rank": (d_rank, [("mae", "leadtime"), ("mae", "time"), ("corr", "location"), ("bias", "time")]),
}


def harness(ctx):
    seed = core.seed()
    name = ctx.choose("diagram", ctx.params["diagrams"], free=True)
    fn, menu = DIAGRAMS[name]
    opt = ctx.choose("options", menu, free=True)
    n = ctx.choose("inputs", (2, 1, 3), free=True)
    variant = ctx.choose("dataset", ("missing", "complete"), free=True)
    inputs = build(n, seed, variant)
    paths = write(inputs, "c16-%d-%s" % (n, variant))
    ref = RD.RefData(inputs)
    ctx.note("case", {"diagram": name, "options": opt, "inputs": n, "dataset": variant})
    fn(ctx, inputs, paths, ref, opt)
    ctx.observe((name, str(opt), n, variant))
    ctx.outcome(name)
    ctx.nontrivial(n > 1)


def run(tier, only=None):
    t0 = time.time()
    diagrams = sorted(DIAGRAMS) if not only or only == "figures" else [only]
    st = explore.explore(harness, mode="full", params={"diagrams": diagrams}, repo_root=core.REPO, time_cap=(400 if tier == "quick" else 3000))
    return [core.Sub.from_e1("figures", st, bound="full product: %d diagram families x their option menus x {1,2,3} inputs x {partly missing, complete} dataset" % len(diagrams),
                             rule="one execution = one figure rendered by the driver; main series (by legend label) compared with reference statistics; non-trivial = more than one input",
                             required_flags=tuple(f for d, f in (("reliability", "inset"), ("reliability", "outside-edges"), ("fss", "fss-scales"), ("impact", "impact"), ("rank", "rank-cycle"), ("autocorr", "zero-separation-pairs"), ("autocorr", "quantile-lines")) if d in diagrams), wall=time.time() - t0)]


def replay(rec):
    ctx, _ = explore.replay(harness, rec["choices"], None, params={"diagrams": sorted(DIAGRAMS)}, repo_root=core.REPO)
    return [v.locus for v in ctx.violations if v.locus == rec["signature"][1]]
