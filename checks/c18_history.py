"""C18 - query results are independent of query history and repeatable.

E2: explicit-state breadth-first search over the real verif.data.Data object under get_scores
request events.  A state is the request history that reaches it; the canonical form is a generic
object-graph fingerprint of the Data instance (both caches, the input objects, every ndarray,
the aliasing partition) plus the mutable module-level objects of verif.data/input/field/util.

Invariants: on every transition the answer equals what a freshly built dataset returns for the
same request (and the reference model's answer); no array returned earlier changes; the input
objects' arrays never change.
"""
import os
import subprocess
import sys
import time

import numpy as np

from mc import core, bfs, gen, datasets, fingerprint
from mc import harness as H
from mc.ref import dataset as RD

PID = "C18"
LEVEL = "model_checking"
TECHNIQUE = "explicit-state BFS (E2) over the real Data object with object-graph canonical hashing to a fixpoint; every transition compared with a fresh dataset and with the reference dataset model; merges validated by depth-1 bisimulation"
ASSUMPTIONS = ["request menus, not all requests", "files with x0/x1 (PIT randomisation) are exercised in the repeatability sub-check only"]

DAY = 86400


def make_inputs(config, seed):
    """2 inputs on a 2x2x2 grid, partly missing, every cell a different value."""
    t = [datasets.T_FEB28_2012, datasets.T_FEB28_2012 + DAY]
    l = [0.0, 24.0]
    locs = gen.std_locs(2, seed)
    vals = gen.unique_values(seed, 200)
    it = iter(vals)

    counter = [0]

    def field(miss=()):
        # every field gets its own permutation of 8 fresh values, so that no two fields are co-monotonic
        counter[0] += 1
        block = [next(it) for _ in range(8)]
        stride = (3, 5, 7)[counter[0] % 3]
        offset = counter[0] % 8
        d = {}
        n = 0
        for ti in range(2):
            for li in range(2):
                for si in range(2):
                    v = block[(n * stride + offset) % 8]
                    n += 1
                    if (ti, li, si) not in miss:
                        d[(ti, li, si)] = v
        return d
    obsvals = field(miss=[(1, 1, 0)])
    A = gen.AInput("A", t, l, locs, {"obs": dict(obsvals), "fcst": field(miss=[(0, 0, 1)]),
                                     "pit": field(miss=[(0, 1, 1)]), "p1": field(), "q0.5": field()})
    Bf = {"fcst": field(miss=[(1, 0, 0)]), "pit": field(), "p1": field(miss=[(1, 1, 1)]), "q0.5": field()}
    if config != "noobs":
        Bf["obs"] = dict(obsvals)
    if config == "ownobs":
        # B carries its own observations: other values, another cell missing (which file's observations an input is given must not
        # depend on which input was asked first)
        Bf["obs"] = field(miss=[(0, 1, 0)])
    if config == "emptyslice":
        # every forecast of B at the second lead time is missing: that slice has no valid case for any request using fcst
        for pos in list(Bf["fcst"]):
            if pos[1] == 1:
                del Bf["fcst"][pos]
    B = gen.AInput("B", t, l, locs, Bf)
    if config == "ensemble":
        # three members in no particular order (each field is its own permutation), one member cell missing
        for ai, miss in ((A, [(0, 1, 0)]), (B, [])):
            ai.fields["e0"] = field(miss=miss)
            ai.fields["e1"] = field()
            ai.fields["e2"] = field()
    clim = None
    if config == "clim":
        clim = gen.AInput("K", t, l, locs, {"fcst": field(miss=[(0, 1, 0)]), "pit": field(), "p1": field(),
                                            "q0.5": field()})
    kw = {}
    if config == "obsrange":
        ov = sorted(v for v in obsvals.values())
        kw["obs_range"] = [ov[2], ov[-3]]          # two observations fall below and two above the range
    return [A, B], clim, kw


def ev(roles, inp, axis, index=None, single=False):
    return (tuple(roles), bool(single), inp, axis, index)


P1 = ("p", 1.0)
Q5 = ("q", 0.5)
MENU12 = [
    ev(["obs", "fcst"], 0, "all"), ev(["obs"], 0, "all", single=True), ev(["fcst"], 1, "all", single=True),
    ev(["obs", "fcst"], 0, "no", 0), ev(["obs"], 0, "no", 0, single=True), ev(["obs", "fcst"], 1, "no", 0),
    ev(["obs", "fcst"], 1, "location", 1), ev(["fcst", "pit"], 0, "all"), ev(["pit"], 0, "no", 0, single=True),
    ev(["obs", P1], 1, "no", 0),
    # three and four fields in an order that is not sorted by any natural key (as SpreadSkillRatio requests them)
    ev(["obs", P1, "fcst"], 0, "no", 0), ev([Q5, P1, "fcst", "obs"], 1, "all"),
]
MENU16 = MENU12 + [ev(["fcst"], 0, "no", 0, single=True), ev(["obs"], 1, "leadtime", 0, single=True),
                   ev(["obs", "fcst"], 1, "all"), ev(["obs", "fcst"], 0, "leadtimeday", 1)]
MENU8 = [MENU12[i] for i in (0, 1, 3, 4, 6, 7, 10, 11)]
# requests that hit a slice without any valid case (and neighbours sharing its cache entries)
MENU_EMPTY = [ev(["obs", "fcst"], 0, "leadtime", 1), ev(["fcst"], 0, "leadtime", 1, single=True), ev(["fcst"], 0, "leadtime", 1), ev(["obs", "fcst"], 1, "leadtime", 1),
              ev(["obs", "fcst"], 0, "leadtime", 0), ev(["obs", "fcst"], 0, "all"), ev(["fcst"], 1, "leadtimeday", 1, single=True), (("M", "mae"), False, 0, "leadtime", None),
              (("M", "fcst"), False, 1, "leadtime", None)]


# observations of either input first, alone and with its forecast
MENU_OWNOBS = [ev(["obs"], 0, "all", single=True), ev(["obs"], 1, "all", single=True), ev(["obs", "fcst"], 0, "no", 0), ev(["obs", "fcst"], 1, "no", 0),
               ev(["obs"], 1, "no", 0, single=True), ev(["obs"], 0, "location", 1, single=True), ev(["fcst", "obs"], 1, "location", 1), ev(["obs", P1], 0, "leadtime", 0),
               (("M", "mae"), False, 1, "leadtime", None)]


# requests answered from the ensemble (a quantile level and a threshold the files do not store) between requests for the members
E0, E1, E2 = ("e", 0), ("e", 1), ("e", 2)
Q3, P2 = ("q", 0.3), ("p", 2.0)
MENU_ENS = [ev([E0], 0, "all", single=True), ev([E1, E2], 0, "no", 0), ev([E2], 1, "all", single=True), ev(["obs", Q3], 0, "no", 0), ev([Q3], 1, "all", single=True),
            ev(["obs", P2], 0, "no", 0), ev([P2, Q3], 1, "all"), ev(["obs", E0, "fcst"], 1, "location", 1), ev([Q5], 0, "all", single=True),
            ev([("q", 0.9), E1], 0, "leadtime", 1)]


# NetCDF inputs: a stored probability requested before / after the observations of either input are first loaded
MENU_NC = [MENU12[0], MENU12[3], MENU12[9], MENU12[11], ev(["obs"], 1, "all", single=True), ev(["fcst"], 0, "no", 0, single=True), ev([P1], 0, "all", single=True)]


def big_menu(small=False):
    sets = [(["obs", "fcst"], False), (["fcst", "obs"], False), (["obs"], True), (["fcst"], True), (["pit"], True), (["obs", P1], False),
            (["fcst", "pit"], False), (["obs", P1, "fcst"], False), ([Q5, P1, "fcst", "obs"], False)]
    axes = [("all", None), ("no", 0), ("time", 0), ("time", 1), ("leadtime", 0), ("leadtime", 1), ("location", 0),
            ("location", 1), ("month", 0)]
    if small:
        sets = sets[:4] + sets[7:]
        axes = [("all", None), ("no", 0), ("time", 1), ("leadtime", 0), ("location", 1)]
    menu = []
    for roles, single in sets:
        for inp in (0, 1):
            for ax, idx in axes:
                menu.append(ev(roles, inp, ax, idx, single))
    # whole metric computations as events (a metric must not disturb what later requests see)
    for name in ("derror", "mae", "corr", "ets", "rankcorr", "leps"):
        for ax in ("no", "leadtime"):
            menu.append((("M", name), False, 0, ax, None))
    return menu


class DataMachine(object):
    def __init__(self, config, menu, seed):
        self.config = config
        self.menu = list(menu)
        self.seed = seed
        self.ainputs, self.aclim, self.kw = make_inputs(config, seed)
        self.ref = RD.RefData(self.ainputs, clim=self.aclim, **{k: v for k, v in self.kw.items()})
        ov = sorted(v for v in self.ainputs[0].fields["obs"].values())
        self.mid = ov[len(ov) // 2]
        self.fresh = {}
        for e in self.menu:
            obj = self.build(())
            try:
                self.fresh[e] = self.observe(self.apply(obj, e))
            except Exception as x:  # noqa - a crash on a fresh dataset is reported by the initial invariant
                self.fresh[e] = ("crash", core.E1.crash_site(x, core.REPO)[1])

    def events(self, hist):
        return self.menu

    def _nc_inputs(self):
        """the inputs as NetCDF files whose missing cells are masked by an explicit _FillValue that is an ordinary number
        (reader state such as auto-masking lives in the open file handle of each input object)"""
        import verif.input
        d = os.path.join(H.scratch(), "c18nc%d" % os.getpid())
        os.makedirs(d, exist_ok=True)
        out = []
        for a in self.ainputs:
            p = os.path.join(d, "%s-%d.nc" % (a.name, self.seed))
            if not os.path.exists(p):
                gen.netcdf_file(a, p, missing_enc="fill")
            out.append(verif.input.Netcdf(p))
        return out

    def build(self, hist):
        import verif.data
        inputs = [gen.mem_input(a) for a in self.ainputs] if self.config != "netcdf" else self._nc_inputs()
        clim = gen.mem_input(self.aclim) if self.aclim is not None else None
        pristine = fingerprint.fingerprint([("inputs", inputs), ("clim", clim)])
        kind, data, site, _ = H.quiet_call(verif.data.Data, inputs, clim=clim, **self.kw)
        if kind != "ok":
            raise core.E1.HarnessError("Data() failed on a well-formed dataset: %r %r" % (kind, site))
        obj = {"data": data, "inputs": inputs, "clim": clim, "pristine": pristine, "returned": []}
        for e in hist:
            self.apply(obj, e)
        return obj

    def apply(self, obj, e):
        roles, single, inp, axis, index = e
        if roles and roles[0] == "M":
            import verif.metric
            import verif.interval
            m = verif.metric.get(roles[1])
            iv = verif.interval.Interval(self.mid, np.inf, False, False)
            kind, res, site, _ = H.quiet_call(m.compute, obj["data"], inp, RD.to_axis(axis), iv)
            if kind == "crash":
                raise res
            if kind == "exit":
                return ("exit",)
            return ("ok", [np.array(res, dtype=float, copy=True)])
        fields = [RD.to_field(r) for r in roles]
        arg = fields[0] if single else fields
        kind, res, site, _ = H.quiet_call(obj["data"].get_scores, arg, inp, RD.to_axis(axis), index)
        if kind == "crash":
            raise res
        if kind == "exit":
            return ("exit",)
        arrs = [res] if single else list(res)
        obj["returned"].append((e, arrs, [self._bytes(a) for a in arrs]))
        return ("ok", [np.array(a, copy=True) for a in arrs])

    @staticmethod
    def _bytes(a):
        a = np.asarray(a, dtype=float)
        return (a.shape, np.where(np.isnan(a), np.float64("nan"), a).tobytes())

    def observe(self, observation):
        if observation[0] != "ok":
            return observation
        return ("ok", tuple(self._bytes(a) for a in observation[1]))

    def canon(self, obj):
        import verif.data
        import verif.input
        import verif.field
        import verif.util
        roots = [("data", obj["data"]), ("inputs", obj["inputs"]), ("clim", obj["clim"])]
        for mod in (verif.data, verif.input, verif.field, verif.util):
            roots += fingerprint.module_globals(mod) + fingerprint.class_attrs(mod)
        return repr(fingerprint.fingerprint(roots)).encode()

    def snapshot(self, obj):
        return None

    def invariant(self, obj, hist):
        out = []
        # inputs unmodified
        now = fingerprint.fingerprint([("inputs", obj["inputs"]), ("clim", obj["clim"])])
        if now != obj["pristine"]:
            out.append(("input-objects-modified", {"history": [repr(e) for e in hist]}))
        # arrays returned earlier unchanged
        for (e, arrs, snaps) in obj["returned"][:-1]:
            for a, s in zip(arrs, snaps):
                if self._bytes(a) != s:
                    out.append(("returned-array-altered-later", {"request": repr(e), "by": repr(hist[-1]) if hist else None}))
                    break
        return out

    def step_invariant(self, snap, obj, e, observation, hist):
        out = []
        got = self.observe(observation)
        if got != self.fresh[e]:
            out.append(("answer-depends-on-history", {"request": repr(e), "history": [repr(h) for h in hist],
                                                       "fresh": _show(self.fresh[e]), "got": _show(got)}))
        return out

    # reference-model conformance of the fresh answers (run once, at the initial state)
    def check_fresh_against_reference(self):
        out = []
        for e in self.menu:
            roles, single, inp, axis, index = e
            fresh = self.fresh[e]
            if roles and roles[0] == "M":
                continue      # metric values are decided by C05/C06; here only their history independence
            if fresh[0] != "ok":
                out.append(("fresh-request-%s" % ("crashes:" + fresh[1] if fresh[0] == "crash" else "rejected"), {"request": repr(e)}))
                continue
            arrs = [np.frombuffer(b, dtype=float).reshape(shape) for shape, b in fresh[1]]
            if axis == "all":
                exp = self.ref.request_all(list(roles), inp)
                cases = self.ref.cases()
                T, L, S = len(self.ref.T), len(self.ref.L), len(self.ref.S)
                ok = all(a.shape == (T, L, S) for a in arrs)
                if ok:
                    for ci, case in enumerate(cases):
                        idx = (ci // (L * S), ci // S % L, ci % S)
                        e_t = exp[case]
                        for k, a in enumerate(arrs):
                            v = float(a[idx])
                            if e_t is None:
                                ok = ok and np.isnan(v)
                            else:
                                ok = ok and (v == e_t[k] or abs(v - e_t[k]) <= 2e-6 * max(1, abs(v)))
                if not ok:
                    out.append(("fresh-differs-from-reference", {"request": repr(e)}))
            else:
                exp = self.ref.request(list(roles), inp, axis, index)
                got = RD.impl_rows(arrs, single=False)
                if not RD.rows_equal(exp, got):
                    out.append(("fresh-differs-from-reference", {"request": repr(e), "expected": exp, "got": got}))
        return out


def _show(o):
    if o[0] != "ok":
        return o
    return [np.frombuffer(b, dtype=float).reshape(shape).tolist() for shape, b in o[1]]


class Wrapped(DataMachine):
    """adds the reference conformance check to the initial-state invariant"""

    def invariant(self, obj, hist):
        out = DataMachine.invariant(self, obj, hist)
        if len(hist) == 0:
            out += self.check_fresh_against_reference()
        return out


# ---- repeatability of whole commands --------------------------------------------------------------
REPEAT_CMDS = [
    # a command with a non-default aggregator / bin type runs BEFORE the plain command for the same metric: in one process the plain
    # command must print what a fresh process prints (no option may stick to a metric, field or module between commands)
    ["-m", "mae", "-agg", "max", "-type", "csv"], ["-m", "mae", "-type", "csv"],
    ["-m", "ets", "-r", "1,2", "-b", "below", "-type", "csv"], ["-m", "ets", "-r", "1,2", "-type", "csv"], ["-m", "bs", "-r", "2", "-type", "csv"],
    ["-m", "pithistdev", "-type", "csv", "-x", "no"], ["-m", "corr", "-x", "location", "-type", "text"],
    ["-m", "obsfcst", "-type", "csv"], ["-m", "rmse", "-x", "time", "-type", "csv"],
    ["-m", "quantilescore", "-q", "0.5", "-type", "csv"], ["-m", "mae", "-type", "csv", "-T", "24"],
    ["-m", "bias", "-x", "month", "-type", "text"],
]


def sub_repeat(tier):
    """each command twice in-process and in fresh subprocesses under 3 PYTHONHASHSEED values"""
    s = core.Sub("repeat", "E1", rule="each command of a menu is run twice in-process and once per PYTHONHASHSEED "
                 "in {0,1,2} in fresh subprocesses; stdout must be byte-identical; non-trivial = produced output")
    t0 = time.time()
    paths = datasets.write_text(datasets.shape("regular", core.seed()), "c18-rep")
    # a file with discrete-mass metadata (x0) exercises PIT randomisation
    x0in = datasets.shape("one_input", core.seed())[0]
    x0in.x0 = 0.0
    x0in.name = "X0.txt"
    x0path = datasets.write_text([x0in], "c18-rep")[0]
    rc = REPEAT_CMDS if tier == "thorough" else REPEAT_CMDS[:7]
    cmds = [paths + c for c in rc] + [[x0path, "-m", "pit", "-type", "csv"], [x0path, "-m", "pithistdev", "-x", "no", "-type", "csv"]]
    outs = set()
    from multiprocessing.pool import ThreadPool
    tp = ThreadPool(3)
    for argv in cmds:
        a = H.run_cli(argv, seed_random=False)
        b = H.run_cli(argv, seed_random=False)
        s.executions += 2
        label = " ".join(os.path.basename(x) if x.startswith("/") else x for x in argv)
        uses_x0 = x0path in argv
        if (a.kind, a.stdout) != (b.kind, b.stdout):
            s.violations.append({"locus": ("pit-randomisation-not-repeatable" if uses_x0 else "repeat:in-process:%s" % label),
                                 "detail": {"argv": label, "first": a.stdout[-300:], "second": b.stdout[-300:]},
                                 "choices": [], "deviations": 0, "engine": "E1", "notes": {"argv": argv}})
            s.violation_count += 1
        if a.kind == "ok":
            s.nontrivial += 1
        outs.add(a.stdout)
        def one(hs, argv=argv):
            env = dict(os.environ, PYTHONHASHSEED=hs, MPLBACKEND="Agg")
            code = "import sys; sys.path.insert(0, %r); import verif.driver; verif.driver.run(['verif'] + sys.argv[1:])" % core.REPO
            r = subprocess.run([sys.executable, "-c", code] + argv, capture_output=True, text=True, env=env, timeout=300)
            return H.strip_ansi(r.stdout)
        sub_out = list(tp.map(one, ("0", "1", "2")))
        s.executions += 3
        if len(set(sub_out)) != 1:
            s.violations.append({"locus": ("pit-randomisation-not-repeatable" if uses_x0 else "repeat:subprocess:%s" % label),
                                 "detail": {"argv": label, "outputs": [o[-200:] for o in sub_out]},
                                 "choices": [], "deviations": 0, "engine": "E1", "notes": {"argv": argv}})
            s.violation_count += 1
        elif a.kind == "ok" and sub_out[0].strip() != a.stdout.strip():
            s.violations.append({"locus": ("pit-randomisation-not-repeatable" if uses_x0 else "repeat:inprocess-vs-subprocess:%s" % label),
                                 "detail": {"argv": label, "inproc": a.stdout[-200:], "sub": sub_out[0][-200:]},
                                 "choices": [], "deviations": 0, "engine": "E1", "notes": {"argv": argv}})
            s.violation_count += 1
    s.distinct = len(outs)
    s.states = s.executions
    s.transitions = s.executions
    s.traces_validated = s.executions
    s.bound = "%d commands x (2 in-process + 3 subprocess hash seeds)" % len(cmds)
    s.outcomes = {"commands": len(cmds)}
    s.samples = [{"argv": [os.path.basename(x) if x.startswith("/") else x for x in cmds[0]]}]
    s.wall = time.time() - t0
    return s


def plan(tier):
    if tier == "quick":
        return [("fix-plain", "plain", MENU12, None), ("fix-obsrange", "obsrange", MENU8, None),
                ("fix-noobs", "noobs", MENU8, None), ("fix-clim", "clim", MENU8, None), ("fix-emptyslice", "emptyslice", MENU_EMPTY, None),
                ("fix-ensemble", "ensemble", MENU_ENS, None), ("fix-netcdf", "netcdf", MENU_NC, 3), ("fix-ownobs", "ownobs", MENU_OWNOBS, None), ("depth2-big", "plain", big_menu(small=True), 2)]
    return [("fix-plain", "plain", MENU16, None), ("fix-obsrange", "obsrange", MENU12, None),
            ("fix-noobs", "noobs", MENU12, None), ("fix-clim", "clim", MENU12, None), ("fix-emptyslice", "emptyslice", MENU_EMPTY + MENU8[:4], None),
            ("fix-ensemble", "ensemble", MENU_ENS, None), ("fix-netcdf", "netcdf", MENU_NC, None), ("fix-ownobs", "ownobs", MENU_OWNOBS, None), ("depth2-big-ownobs", "ownobs", big_menu(), 2), ("depth2-big", "plain", big_menu(), 2), ("depth3-mid", "plain", big_menu(small=True), 3), ("depth2-big-clim", "clim", big_menu(), 2),
            ("depth2-big-obsrange", "obsrange", big_menu(), 2)]


def run(tier, only=None):
    subs = []
    for name, config, menu, depth in plan(tier):
        if only and only != name:
            continue
        t0 = time.time()
        m = Wrapped(config, menu, core.seed())
        res = bfs.bfs(m, max_depth=depth, repo_root=core.REPO, time_cap=(600 if tier == "quick" else 1800),
                      validate_merges=(None if tier == "thorough" and len(menu) <= 12 and config != "netcdf" else 1000))
        subs.append(core.Sub.from_e2(
            name, res, bound="config=%s menu=%d requests%s" % (config, len(menu), "" if depth is None else " depth<=%d" % depth),
            rule="state = request history on a 2-input 2x2x2 partly-missing dataset; canonical state = object-graph "
                 "fingerprint of Data+inputs+module globals; every transition's answer compared with a fresh dataset's",
            wall=time.time() - t0))
    if only in (None, "repeat"):
        subs.append(sub_repeat(tier))
    return subs


def replay(rec):
    name = rec["subcheck"]
    if name == "repeat":
        s = sub_repeat(rec.get("tier", "quick"))
        return [v["locus"] for v in s.violations if v["locus"] == rec["signature"][1]]
    for tier in (rec.get("tier", "quick"), "thorough", "quick"):
        for n, config, menu, depth in plan(tier):
            if n == name:
                m = Wrapped(config, menu, rec.get("seed", core.seed()))
                hist = [_ev_from_json(e) for e in rec["history"]]
                obj = m.build(tuple(hist[:-1]))
                vio = []
                if hist:
                    o = m.apply(obj, hist[-1])
                    vio += m.step_invariant(None, obj, hist[-1], o, tuple(hist[:-1]))
                vio += m.invariant(obj, tuple(hist))
                return [l for l, d in vio if l == rec["signature"][1]]
    return []


def _ev_from_json(e):
    roles, single, inp, axis, index = e
    roles = tuple(tuple(r) if isinstance(r, list) else r for r in roles)
    return (roles, bool(single), inp, axis, index)
