"""C08 - probabilistic scores follow their definitions; event probability from the CDF.

 formulas  all (p, o) vectors of length <= 3 (thorough 4) over p in {0, .05, .1, .25, .3, .5, .95, 1}, o in {0,1}
           through compute_from_obs_fcst of bs, bsrel, bsres, bsunc, bss, bssrel, bssres; identities
 data      files storing cdf columns at thresholds {1,3}, quantile columns {.1,.9}, 3 ensemble members and pit;
           requests at stored and non-stored thresholds / levels (forcing the ensemble fall-backs), all 8 bin types,
           through get_p and every probabilistic metric's compute; dev(2) over missing cells (incl. members)
 cli       the same datasets as text files through -m <metric> -r/-q .. -b .. -type csv
Oracle: mc/ref/metrics_prob.py on the reference dataset model's valid cases.
"""
import math
import os
import time

import numpy as np

from mc import core, explore, gen
from mc import harness as H
from mc.ref import metrics_prob as MP
from mc.ref import dataset as RD
from mc.ref import aggregators as AG
from checks import common_data as CD
from checks.c07_events import ref_event, BIN_TYPES

PID = "C08"
LEVEL = "exploration"
TECHNIQUE = "bounded exhaustive enumeration (E1) of probability/observation vectors and of small probabilistic datasets (stored vs ensemble-derived thresholds and quantiles, 8 bin types, missing members) against plain-Python reference definitions"
ASSUMPTIONS = ["a quantile taken from an ensemble with a missing member may be missing",
               "reliability/resolution: ten probability bins [k/10,(k+1)/10) with the last including 1, decided in exact decimals"]

PVALS = [0.0, 0.05, 0.1, 0.25, 0.3, 0.5, 0.95, 1.0]


def tol_equal(exp, got, rtol=1e-7):
    if got is np.ma.masked:
        got = float("nan")
    try:
        g = float(got)
    except (TypeError, ValueError):
        return False
    if exp is None or (isinstance(exp, float) and (math.isnan(exp) or math.isinf(exp))):
        return math.isnan(g) or math.isinf(g)
    if math.isnan(g) or math.isinf(g):
        return False
    return exp == g or abs(exp - g) <= rtol * max(1.0, abs(exp), abs(g))


_M = {}


def get_metric(name):
    import verif.metric
    if name not in _M:
        _M[name] = verif.metric.get(name)
    return _M[name]


FORMULAS = {"bs": MP.brier, "bsrel": MP.bs_rel, "bsres": MP.bs_res, "bsunc": MP.bs_unc, "bss": MP.bss, "bssrel": MP.bss_rel,
            "bssres": MP.bss_res}


def linspace_bin(p):
    """the implementation's bins: edges numpy.linspace(0, 1, 11), whose 4th, 7th and 8th edge lie one ulp ABOVE 0.3, 0.6, 0.7"""
    edges = [float(x) for x in np.linspace(0, 1, 11)]
    edges[-1] = 1.001
    for i in range(10):
        if edges[i] <= p < edges[i + 1]:
            return i
    return -1


EDGE_P = (0.3, 0.6, 0.7)


def h_formulas(ctx):
    n = ctx.choose("length", list(range(0, ctx.params["maxlen"] + 1)), free=True)
    p = [ctx.choose("p%d" % i, PVALS, free=True) for i in range(n)]
    o = [ctx.choose("o%d" % i, (0.0, 1.0), free=True) for i in range(n)]
    ctx.note("p", p)
    ctx.note("o", o)
    if n == 0:
        ctx.outcome("empty")
        ctx.observe(())
        return
    P, O = np.array(p), np.array(o)
    got = {}
    for name, fn in FORMULAS.items():
        m = get_metric(name)
        kind, val, site, _ = H.quiet_call(m.compute_from_obs_fcst, O.copy(), P.copy())
        if kind != "ok":
            ctx.fail("formula:%s:%s:%s" % (name, kind, site), p=p, o=o)
            continue
        exp = fn(p, o)
        got[name] = float(val)
        if not tol_equal(exp, val):
            if name in ("bsrel", "bsres", "bssrel", "bssres") and any(x in EDGE_P for x in p) and tol_equal(fn(p, o, linspace_bin), val):
                # a probability exactly on the bin edge 0.3 / 0.6 / 0.7 is put into the bin BELOW it
                ctx.fail("formula:bin-edge-0.3-0.6-0.7-falls-into-lower-bin", p=p, o=o, expected=exp, actual=float(val), metric=name)
            else:
                ctx.fail("formula:%s:value" % name, p=p, o=o, expected=exp, actual=float(val))
    # identities
    if all(k in got for k in ("bs", "bsrel", "bsres", "bsunc")):
        onep = all(len(set(a for a, b in g)) == 1 for g in MP._bins(p, o, MP.prob_bin).values()) and \
            all(len(set(a for a, b in g)) == 1 for g in MP._bins(p, o, linspace_bin).values())
        if onep:
            ctx.flag("decomposition")
            lhs, rhs = got["bs"], got["bsrel"] - got["bsres"] + got["bsunc"]
            ctx.require(abs(lhs - rhs) <= 1e-9, "identity:bs=rel-res+unc", p=p, o=o, bs=lhs, rel=got["bsrel"], res=got["bsres"], unc=got["bsunc"])
        # complement: BS of the complementary event
        m = get_metric("bs")
        kind, val, site, _ = H.quiet_call(m.compute_from_obs_fcst, 1 - O, 1 - P)
        if kind == "ok":
            ctx.require(abs(float(val) - got["bs"]) <= 1e-12, "identity:bs-of-complement", p=p, o=o, bs=got["bs"], complement=float(val))
    ctx.observe(tuple(sorted((k, round(v, 12) if not math.isnan(v) else None) for k, v in got.items())))
    ctx.outcome("n=%d" % n)
    ctx.nontrivial()


# ---- data level ---------------------------------------------------------------------------------------------
DAY = 86400
T0 = 1330387200
FIELDS = ["obs", "fcst", "pit", "p1", "p3", "p0.1", "q0.1", "q0.5", "q0.9", "e0", "e1", "e2"]


def dataset(seed):
    locs = gen.std_locs(2, seed)
    t = [T0, T0 + DAY]
    l = [0.0, 24.0]
    ai = gen.AInput("A", t, l, locs)
    obs = [0.5, 1.0, 2.0, 3.0, 3.5, 1.5, 2.5, 1.0]
    for f in FIELDS:
        ai.fields[f] = {}
    for n, pos in enumerate(ai.positions()):
        j = (n * 3 + seed) % 8
        ai.fields["obs"][pos] = obs[n]
        ai.fields["fcst"][pos] = obs[(n + 3) % 8] + 0.25
        ai.fields["p1"][pos] = [0.0, 0.125, 0.25, 0.5, 0.125, 0.0, 1.0, 0.375][j]
        ai.fields["p3"][pos] = min(1.0, ai.fields["p1"][pos] + [0.5, 0.25, 0.75, 0.5, 0.875, 1.0, 0.0, 0.125][j])
        ai.fields["p0.1"][pos] = [0.0, 0.125, 0.0, 0.25, 0.0, 0.0, 0.5, 0.125][j]      # differs from the ensemble fraction at 0.1
        ai.fields["q0.1"][pos] = 0.25 * j
        ai.fields["q0.9"][pos] = 0.25 * j + [2.0, 1.0, 3.0, 0.5][n % 4]
        ai.fields["q0.5"][pos] = 0.25 * j + 0.375 * [2.0, 1.0, 3.0, 0.5][n % 4]      # not midway: the distribution is skewed
        ai.fields["pit"][pos] = [0.0, 0.125, 0.5, 0.625, 0.875, 1.0, 0.25, 0.5][j]
        base = [0.5, 1.0, 2.0, 3.0, 1.0, 2.5, 3.5, 1.5][j]
        ai.fields["e0"][pos] = base
        ai.fields["e1"][pos] = base + 1.0
        ai.fields["e2"][pos] = base - 0.5 if n % 2 else base + 2.0
    return ai


def event_p(ref, i, ax, k, lo, hi):
    """rows of (obs, p_lower or None, p_upper or None) on the valid cases for the interval"""
    roles = ["obs"]
    if lo != float("-inf"):
        roles.append(("p", lo))
    if hi != float("inf"):
        roles.append(("p", hi))
    rows = ref.request(roles, i, ax, k)
    out = []
    for r in rows:
        o = r[0]
        idx = 1
        plo = 0.0
        phi = 1.0
        if lo != float("-inf"):
            plo = r[idx]
            idx += 1
        if hi != float("inf"):
            phi = r[idx]
        out.append((o, phi - plo))
    return out


def in_interval(x, lo, hi, loe, hie):
    above = x > lo or (loe and x == lo) or lo == float("-inf")
    below = x < hi or (hie and x == hi) or hi == float("inf")
    return above and below


THRESH_METRICS = {"bs": MP.brier, "bsrel": MP.bs_rel, "bsres": MP.bs_res, "bsunc": MP.bs_unc, "bss": MP.bss, "bssrel": MP.bss_rel,
                  "bssres": MP.bss_res, "ign0": MP.ign0, "spherical": MP.spherical, "marginalratio": MP.marginal_ratio}


def binner_float32(p):
    return MP.prob_bin(round(float(p), 6))


def h_data(ctx):
    import verif.data
    import verif.util
    import verif.axis
    import verif.metric
    seed = core.seed()
    via = ctx.params["via"]
    ai = dataset(seed)
    if ctx.params.get("tie"):
        # members exactly equal to a decimal threshold that single precision cannot hold (0.3): "at or below the threshold" counts them,
        # whatever precision the members are copied to on the way
        for idx, pos in enumerate(ai.positions()):
            if idx % 3 == 0:
                ai.fields["e1"][pos] = 0.3
    # deviations: missing cells
    for f in ctx.params["missfields"]:
        for pos in ai.positions():
            if ctx.choose_bool("miss:%s:%r" % (f, pos)):
                del ai.fields[f][pos]
    thr_sets = ctx.params["thresholds"]
    bin_type = ctx.choose("bin", BIN_TYPES, free=True)
    thr = ctx.choose("thresholds", thr_sets, free=True)
    # deviation: -T 48 (mean over the trailing 48 h of lead times): every probability then comes from the pre-aggregated members,
    # and a member missing at one lead time is missing in the windows that contain it
    agg = ctx.choose("-T", (None, 48)) if ctx.params.get("agg") else None
    kwr, kwd = {}, {}
    if agg is not None:
        import verif.aggregator
        kwr = {"agg_len": agg, "agg_axis": "leadtime", "agg_method": "mean"}
        kwd = {"dim_agg_length": agg, "dim_agg_axis": verif.axis.Leadtime(), "dim_agg_method": verif.aggregator.Mean()}
        ctx.flag("agg")
    ref = RD.RefData([ai], **kwr)
    if via == "mem":
        kind, data, site, out = CD.make_data([ai], **kwd)
    else:
        kind, data, site, out = CD.make_data([ai], via=via, subdir="c08" + via, **kwd)
    if kind != "ok":
        ctx.fail("data-%s:%s" % (kind, site), stdout=out[-200:])
        return
    ctx.note("case", {"bin": bin_type, "thresholds": thr, "-T": agg, "missing": [l for l, c in zip(ctx.labels, ctx.choices) if str(l).startswith("miss") and c]})
    sig = []
    kindi, intervals, sitei, _ = H.quiet_call(verif.util.get_intervals, bin_type, np.array(thr, dtype=float))
    if kindi != "ok":
        ctx.fail("get_intervals:%s" % sitei)
        return
    for ax in ctx.params["axes"]:
        axis = verif.axis.get(ax)
        nslices = len(ref.axis_values(ax))
        for iv in intervals:
            lo, hi, loe, hie = float(iv.lower), float(iv.upper), bool(iv.lower_eq), bool(iv.upper_eq)
            # event probability and observed event (get_p)
            for k in range(nslices):
                rows = event_p(ref, 0, ax, k, lo, hi)
                kindp, res, sitep, _ = H.quiet_call(verif.metric.get_p, data, 0, axis, k, iv)
                if kindp == "crash":
                    ctx.fail("get_p:crash:%s" % sitep, axis=ax, interval=[lo, hi])
                    continue
                if kindp == "exit":
                    ctx.fail("get_p:rejected", axis=ax, interval=[lo, hi])
                    continue
                obsP, p = res
                got = sorted(zip([float(x) for x in np.asarray(obsP, dtype=float).reshape(-1)], [float(x) for x in np.asarray(p, dtype=float).reshape(-1)]),
                             key=lambda t: (t[1], t[0]))
                exp = sorted([(1.0 if in_interval(o, lo, hi, loe, hie) else 0.0, pp) for o, pp in rows], key=lambda t: (t[1], t[0]))
                if not rows:
                    ok = len(got) == 1 and all(math.isnan(x) for x in got[0])
                else:
                    ok = len(got) == len(exp) and all(abs(a[0] - b[0]) < 1e-12 and abs(a[1] - b[1]) <= 2e-6 for a, b in zip(got, exp))
                if not ok:
                    ctx.fail("get_p:%s:%s" % (bin_type, "stored" if _stored(lo, hi) else "ensemble"), axis=ax, index=k, interval=[lo, hi, loe, hie],
                             expected=exp, actual=got)
            # metrics
            for name, fn in THRESH_METRICS.items():
                m = get_metric(name)
                kindm, val, sitem, _ = H.quiet_call(m.compute, data, 0, axis, iv)
                if kindm != "ok":
                    ctx.fail("metric:%s:%s:%s" % (name, kindm, sitem), axis=ax, interval=[lo, hi])
                    continue
                vals = np.asarray(val, dtype=float).reshape(-1)
                for k in range(nslices):
                    rows = event_p(ref, 0, ax, k, lo, hi)
                    pp = [r[1] for r in rows]
                    oo = [1.0 if in_interval(r[0], lo, hi, loe, hie) else 0.0 for r in rows]
                    if name in ("bsrel", "bsres", "bssrel", "bssres"):
                        exp = fn(pp, oo, binner_float32)
                    else:
                        exp = fn(pp, oo)
                    if not tol_equal(exp, vals[k], 2e-6):
                        ctx.fail("metric:%s:value:%s" % (name, bin_type), axis=ax, index=k, interval=[lo, hi, loe, hie], expected=exp,
                                 actual=float(vals[k]), p=pp, o=oo)
                    if name == "bs":
                        sig.append(None if exp is None else round(exp, 6))
            # mean probability
            m = get_metric("threshold")
            kindm, val, sitem, _ = H.quiet_call(m.compute, data, 0, axis, iv)
            if kindm == "ok":
                vals = np.asarray(val, dtype=float).reshape(-1)
                for k in range(nslices):
                    roles = [("p", x) for x in (lo, hi) if not math.isinf(x)]
                    rows = ref.request(roles, 0, ax, k)
                    if len(roles) == 2:
                        exp = MP._mean([r[1] - r[0] for r in rows]) if rows else None
                    else:
                        exp = MP._mean([r[0] for r in rows]) if rows else None
                    if not tol_equal(exp, vals[k], 2e-6):
                        ctx.fail("metric:threshold:value", axis=ax, index=k, interval=[lo, hi], expected=exp, actual=float(vals[k]))
            elif kindm == "crash":
                ctx.fail("metric:threshold:crash:%s" % sitem)
    # identities on the real metric values: BS(event) == BS(complement) for above t / below= t
    ctx.observe((bin_type, tuple(thr), tuple(sig)))
    ctx.outcome("bin=%s" % bin_type)
    ctx.nontrivial(len(intervals) > 0)

def h_hetero(ctx):
    """two inputs with different columns: A stores p1 / p3 / q0.1 / q0.9 and has members, B has members only.  Each file's event
    probability and quantile come from what THAT file stores (A: the stored values, B: its members)."""
    import verif.util
    import verif.axis
    seed = core.seed()
    via = ctx.choose("via", ("mem", "text", "nc"), free=True)
    order = ctx.choose("first-input", ("A", "B"), free=True)
    bin_type = ctx.choose("bin", ["below", "above=", "within="], free=True)
    A = dataset(seed)
    A.name = "A"
    B = dataset(seed)
    B.name = "B"
    for pos in B.positions():
        B.fields["fcst"][pos] = B.fields["fcst"][pos] + 0.5
    for f in ("p1", "p3", "p0.1", "q0.1", "q0.5", "q0.9", "pit"):
        del B.fields[f]
    for n_, pos in enumerate(B.positions()):
        for m_ in ("e0", "e1", "e2"):
            B.fields[m_][pos] = B.fields[m_][pos] + 0.75 * ((n_ + int(m_[1])) % 3)
    B.fields["obs"] = dict(A.fields["obs"])
    inputs = [A, B] if order == "A" else [B, A]
    ref = RD.RefData(inputs)
    kind, data, site, out = CD.make_data(inputs, via=via, subdir="c08het")
    if kind != "ok":
        ctx.fail("hetero:data-%s:%s" % (kind, site), stdout=out[-200:])
        return
    thr = [1.0, 3.0]
    intervals = verif.util.get_intervals(bin_type, np.array(thr))
    for i in range(2):
        for iv in intervals:
            lo, hi, loe, hie = float(iv.lower), float(iv.upper), bool(iv.lower_eq), bool(iv.upper_eq)
            for name in ("bs", "ign0"):
                m = get_metric(name)
                kindm, val, sitem, _ = H.quiet_call(m.compute, data, i, verif.axis.get("no"), iv)
                if kindm != "ok":
                    ctx.fail("hetero:%s:%s:%s" % (name, kindm, sitem), input=inputs[i].name)
                    continue
                rows = event_p(ref, i, "no", 0, lo, hi)
                pp = [r[1] for r in rows]
                oo = [1.0 if in_interval(r[0], lo, hi, loe, hie) else 0.0 for r in rows]
                exp = THRESH_METRICS[name](pp, oo)
                got = float(np.asarray(val, dtype=float).reshape(-1)[0])
                if not tol_equal(exp, got, 2e-6):
                    ctx.fail("hetero:%s:value" % name, input=inputs[i].name, interval=[lo, hi], expected=exp, actual=got)
        m = get_metric("quantilescore")
        import verif.interval
        ivq = verif.interval.Interval(0.9, np.inf, False, False)
        kindm, val, sitem, _ = H.quiet_call(m.compute, data, i, verif.axis.get("no"), ivq)
        if kindm == "ok":
            rows = ref.request(["obs", ("q", 0.9)], i, "no", 0)
            exp = MP.pinball([r[0] for r in rows], [r[1] for r in rows], 0.9)
            got = float(np.asarray(val, dtype=float).reshape(-1)[0])
            if not tol_equal(exp, got, 2e-6):
                ctx.fail("hetero:quantilescore:value", input=inputs[i].name, expected=exp, actual=got)
        else:
            ctx.fail("hetero:quantilescore:%s:%s" % (kindm, sitem), input=inputs[i].name)
    ctx.observe((via, order, bin_type))
    ctx.outcome(via)
    ctx.nontrivial()


def _stored(lo, hi):
    return all(x in (1.0, 3.0, 0.1) or math.isinf(x) for x in (lo, hi))


QUANT_SETS = [[0.1, 0.9], [0.25, 0.75], [0.1], [0.5], [0.9], [0.1, 0.5], [0.5, 0.9], [0.25, 0.9]]   # the last three are not symmetric about the median


def h_quant(ctx):
    """quantile-based metrics and PIT statistics"""
    import verif.data
    import verif.util
    import verif.axis
    import verif.interval
    seed = core.seed()
    ai = dataset(seed)
    for f in ctx.params["missfields"]:
        for pos in ai.positions():
            if ctx.choose_bool("miss:%s:%r" % (f, pos)):
                del ai.fields[f][pos]
    if ctx.choose_bool("degenerate-ensemble"):
        # every member equals the observation at one case: quantiles derived from the ensemble coincide with it (an empty open interval)
        pos0 = ai.positions()[0]
        if pos0 in ai.fields["obs"]:
            for m in ("e0", "e1", "e2"):
                ai.fields[m][pos0] = ai.fields["obs"][pos0]
            ctx.flag("degenerate")
    qs = ctx.choose("quantiles", QUANT_SETS, free=True)
    bin_type = ctx.choose("bin", ["within", "=within=", "within=", "=within"] if len(qs) == 2 else ["above", "below", "above=", "below="], free=True)
    ref = RD.RefData([ai])
    kind, data, site, out = CD.make_data([ai], via=ctx.params["via"], subdir="c08q")
    if kind != "ok":
        ctx.fail("data-%s:%s" % (kind, site), stdout=out[-200:])
        return
    ctx.note("case", {"quantiles": qs, "bin": bin_type})
    iv = verif.util.get_intervals(bin_type, np.array(qs))[0]
    lo, hi, loe, hie = float(iv.lower), float(iv.upper), bool(iv.lower_eq), bool(iv.upper_eq)
    level = hi if math.isinf(lo) else lo
    sig = []
    for ax in ctx.params["axes"]:
        axis = verif.axis.get(ax)
        nsl = len(ref.axis_values(ax))

        def run(name):
            m = get_metric(name)
            kindm, val, sitem, _ = H.quiet_call(m.compute, data, 0, axis, iv)
            if kindm != "ok":
                ctx.fail("metric:%s:%s:%s" % (name, kindm, sitem), axis=ax, quantiles=qs, bin=bin_type)
                return None
            return np.asarray(val, dtype=float).reshape(-1)
        # pinball loss at the finite level
        vals = run("quantilescore")
        if vals is not None:
            for k in range(nsl):
                rows = ref.request(["obs", ("q", level)], 0, ax, k)
                exp = MP.pinball([r[0] for r in rows], [r[1] for r in rows], level)
                if not tol_equal(exp, vals[k], 2e-6):
                    ctx.fail("metric:quantilescore:value", axis=ax, index=k, level=level, expected=exp, actual=float(vals[k]), rows=rows)
                sig.append(None if exp is None else round(exp, 6))
        # mean quantile value / mean width
        vals = run("quantile")
        if vals is not None:
            for k in range(nsl):
                if len(qs) == 2:
                    rows = ref.request([("q", lo), ("q", hi)], 0, ax, k)
                    exp = MP._mean([r[1] - r[0] for r in rows]) if rows else None
                else:
                    rows = ref.request([("q", level)], 0, ax, k)
                    exp = MP._mean([r[0] for r in rows]) if rows else None
                if not tol_equal(exp, vals[k], 2e-6):
                    ctx.fail("metric:quantile:value", axis=ax, index=k, expected=exp, actual=float(vals[k]))
        # coverage
        vals = run("quantilecoverage")
        if vals is not None:
            for k in range(nsl):
                roles = ["obs"] + [("q", x) for x in (lo, hi) if not math.isinf(x)]
                rows = ref.request(roles, 0, ax, k)
                if not rows:
                    exp = None
                else:
                    cnt = 0
                    for r in rows:
                        o = r[0]
                        idx = 1
                        c0 = c1 = True
                        if not math.isinf(lo):
                            q0 = r[idx]
                            idx += 1
                            c0 = (q0 <= o) if loe else (q0 < o)
                        if not math.isinf(hi):
                            q1 = r[idx]
                            c1 = (q1 >= o) if hie else (q1 > o)
                        cnt += c0 and c1
                    exp = cnt / float(len(rows))
                if not tol_equal(exp, vals[k], 2e-6):
                    ctx.fail("metric:quantilecoverage:value:%s" % bin_type, axis=ax, index=k, expected=exp, actual=float(vals[k]), rows=rows)
        if len(qs) == 2:
            vals = run("spread")
            if vals is not None:
                for k in range(nsl):
                    rows = ref.request([("q", lo), ("q", hi)], 0, ax, k)
                    exp = MP._mean([r[1] - r[0] for r in rows]) if rows else None
                    if not tol_equal(exp, vals[k], 2e-6):
                        ctx.fail("metric:spread:value", axis=ax, index=k, expected=exp, actual=float(vals[k]))
            vals = run("spreadskillratio")
            if vals is not None:
                for k in range(nsl):
                    rows = ref.request([("q", lo), ("q", hi), "fcst", "obs"], 0, ax, k)
                    if not rows:
                        exp = None
                    else:
                        spread = MP._mean([r[1] - r[0] for r in rows])
                        rmse = math.sqrt(MP._mean([(r[2] - r[3]) ** 2 for r in rows]))
                        nstd = 0.5 * (MP.norm_ppf(hi) - MP.norm_ppf(lo))
                        exp = None if rmse == 0 or nstd == 0 else (spread / nstd) / rmse
                    if not tol_equal(exp, vals[k], 2e-6):
                        ctx.fail("metric:spreadskillratio:value", axis=ax, index=k, expected=exp, actual=float(vals[k]))
        # PIT statistics
        for name, fn in (("pithistdev", MP.pit_dev), ("pithistslope", MP.pit_slope), ("pithistshape", MP.pit_shape)):
            vals = run(name)
            if vals is not None:
                for k in range(nsl):
                    rows = ref.request(["pit"], 0, ax, k)
                    exp = fn([r[0] for r in rows])
                    if not tol_equal(exp, vals[k], 1e-6):
                        ctx.fail("metric:%s:value" % name, axis=ax, index=k, expected=exp, actual=float(vals[k]), pit=[r[0] for r in rows])
        vals = run("pit")
        if vals is not None:
            for k in range(nsl):
                rows = ref.request(["pit"], 0, ax, k)
                exp = MP._mean([r[0] for r in rows]) if rows else None
                if not tol_equal(exp, vals[k], 1e-6):
                    ctx.fail("metric:pit:value", axis=ax, index=k, expected=exp, actual=float(vals[k]))
    ctx.observe((tuple(qs), bin_type, tuple(sig)))
    ctx.outcome("q=%s" % (qs,))
    ctx.nontrivial()


def plan(tier):
    q = tier == "quick"
    thr = [[1.0, 3.0], [2.0], [1.5, 2.5], [1.0], [3.0], [0.1], [0.3]]      # 0.1: stored, but not exactly representable in the NetCDF file's float32; 0.3: not stored, ties with members (data-mem)
    return [("formulas", h_formulas, {"maxlen": 3 if q else 4}, "full", None),
            ("data-mem", h_data, {"via": "mem", "missfields": ["obs", "p1", "e0", "e2"], "thresholds": thr, "axes": ["no", "leadtime"], "agg": True, "tie": True}, "dev", 2),
            ("data-text", h_data, {"via": "text", "missfields": ["p3", "e1"], "thresholds": thr[:3] + thr[5:6], "axes": ["no", "location"]}, "dev", 1),
            ("data-nc", h_data, {"via": "nc", "missfields": ["e0"], "thresholds": thr[:3] + thr[5:6], "axes": ["no"]}, "dev", 1),
            ("quant-mem", h_quant, {"via": "mem", "missfields": ["obs", "q0.1", "e1", "pit"], "axes": ["no", "leadtime"]}, "dev", 1 if q else 2),
            ("quant-text", h_quant, {"via": "text", "missfields": ["q0.9", "e2"], "axes": ["no", "location"]}, "dev", 1),
            ("hetero", h_hetero, {}, "full", None)]


def run(tier, only=None):
    subs = []
    for name, h, params, mode, k in plan(tier):
        if only and only != name:
            continue
        t0 = time.time()
        st = explore.explore(h, mode=mode, k=k, params=params, repo_root=core.REPO, time_cap=(300 if tier == "quick" else 3000))
        subs.append(core.Sub.from_e1(name, st, bound=("full product" if mode == "full" else "dev(%d) over missing cells x full over bin types and threshold/quantile sets" % k) + " %r" % ({a: b for a, b in params.items() if a != "thresholds"},),
                                     rule="one execution = one probability vector / one dataset x bin type x threshold (quantile) set; every slice of every metric compared with the reference definition",
                                     required_flags=("decomposition",) if name == "formulas" else ("agg",) if name == "data-mem" else (), wall=time.time() - t0))
    return subs


def replay(rec):
    for tier in (rec.get("tier", "quick"), "thorough", "quick"):
        for name, h, params, mode, k in plan(tier):
            if name == rec["subcheck"]:
                ctx, _ = explore.replay(h, rec["choices"], None, params=params, repo_root=core.REPO)
                return [v.locus for v in ctx.violations if v.locus == rec["signature"][1]]
    return []
