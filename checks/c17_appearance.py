"""C17 - plot appearance options are honoured in the produced figure.

E1: single options (dev(1)) on three hosts - a standard line plot, a map and a diagram with several sub-axes (pithist) - and ALL PAIRS
of options on the standard plot (independence: with a second option present the first option's figure property is unchanged);
output formats by file extension.  The figure is read back from pyplot.gcf() after driver.run(... -f file); the written file's
header is inspected.
"""
import itertools
import os
import struct
import time

import numpy as np

from mc import core, explore, gen, datasets
from mc import harness as H

PID = "C17"
LEVEL = "exploration"
TECHNIQUE = "bounded exhaustive enumeration (E1): every appearance option singly on three host plots and all pairs of options on the standard plot, through the real driver; documented figure properties read back from the matplotlib artists and the written file"
ASSUMPTIONS = ["artist level (no pixels) except the image size and magic bytes of the written file"]

DAY = 86400
T0 = 1330387200


def paths_for(seed):
    locs = gen.std_locs(3, seed)
    times = [T0 + i * DAY for i in range(3)]
    leads = [0.0, 12.0, 24.0]
    inputs = [datasets.full_input(n, times, leads, locs, k=k, seed=seed) for k, n in enumerate(["Alpha.txt", "Beta.txt"])]
    d = os.path.join(H.scratch(), "c17")
    os.makedirs(d, exist_ok=True)
    out = []
    for ai in inputs:
        p = os.path.join(d, ai.name)
        if not os.path.exists(p):
            gen.text_file(ai, p)
        out.append(p)
    return out


HOSTS = {"standard": ["-m", "mae", "-x", "leadtime"], "map": ["-m", "mae", "-type", "map"], "multi": ["-m", "pithist"],
         # location-related hosts (only the location annotation fields are checked on them)
         "standard-loc": ["-m", "mae", "-x", "location"], "mapimpact": ["-m", "mae", "-type", "mapimpact"], "obsfcst-loc": ["-m", "obsfcst", "-x", "location"]}


def main_axes(fig, host):
    if host == "map":
        return [ax for ax in fig.axes if ax.collections and ax.get_label() != "<colorbar>"][:2]
    if host == "mapimpact":
        return [ax for ax in fig.axes if ax.collections and ax.get_label() != "<colorbar>"][:1]
    if host == "multi":
        return [ax for ax in fig.axes if ax.patches]
    return fig.axes[:1]


def rgba(c):
    import matplotlib.colors
    return tuple(round(x, 4) for x in matplotlib.colors.to_rgba(c))


def series(ax):
    return [l for l in ax.get_lines() if str(l.get_label()) in ("Alpha.txt", "Beta.txt", "first", "second sys")]


# every option: (name, argv tokens, hosts it applies to, checker(fig, host, ctxinfo) -> list of problems)
def OPTIONS():
    import matplotlib.legend
    opts = []

    def add(name, tokens, hosts, fn):
        opts.append((name, tokens, hosts, fn))

    def each_axis(fn):
        def run(fig, host, info):
            out = []
            for ax in main_axes(fig, host):
                r = fn(ax, fig, host, info)
                if r:
                    out.append(r)
            return out
        return run

    add("-title", ["-title", "My_title"], ("standard", "map", "multi"), each_axis(lambda ax, f, h, i: None if ax.get_title() == "My title" else "title is %r" % ax.get_title()))
    add("-xlabel", ["-xlabel", "The_x"], ("standard", "map", "multi"), each_axis(lambda ax, f, h, i: None if ax.get_xlabel() == "The_x" else "xlabel is %r" % ax.get_xlabel()))
    add("-ylabel", ["-ylabel", "The_y"], ("standard", "map", "multi"), each_axis(lambda ax, f, h, i: None if ax.get_ylabel() == "The_y" else "ylabel is %r" % ax.get_ylabel()))
    add("-xlim", ["-xlim", "-3,30"], ("standard", "multi"), each_axis(lambda ax, f, h, i: None if tuple(ax.get_xlim()) == (-3.0, 30.0) else "xlim is %r" % (ax.get_xlim(),)))
    add("-ylim", ["-ylim", "0.25,7"], ("standard", "multi"), each_axis(lambda ax, f, h, i: None if tuple(ax.get_ylim()) == (0.25, 7.0) else "ylim is %r" % (ax.get_ylim(),)))
    add("-xticks", ["-xticks", "0,12"], ("standard", "multi"), each_axis(lambda ax, f, h, i: None if [float(x) for x in ax.get_xticks()] == [0.0, 12.0] else "xticks are %r" % list(ax.get_xticks())))
    add("-yticks", ["-yticks", "0.5,1,4"], ("standard", "multi"), each_axis(lambda ax, f, h, i: None if [float(x) for x in ax.get_yticks()] == [0.5, 1.0, 4.0] else "yticks are %r" % list(ax.get_yticks())))
    # ticks outside the requested limits: the ticks are as given AND the limits stay as given (set_xticks would widen the view)
    add("-xticks-wide", ["-xticks", "0,12,48"], ("standard",), each_axis(lambda ax, f, h, i: None if [float(x) for x in ax.get_xticks()] == [0.0, 12.0, 48.0] else "xticks are %r" % list(ax.get_xticks())))
    add("-yticks-wide", ["-yticks", "0.5,1,40"], ("standard",), each_axis(lambda ax, f, h, i: None if [float(x) for x in ax.get_yticks()] == [0.5, 1.0, 40.0] else "yticks are %r" % list(ax.get_yticks())))
    add("-xticklabels", ["-xticks", "0,12", "-xticklabels", "zero,twelve"], ("standard",),
        each_axis(lambda ax, f, h, i: None if [t.get_text() for t in ax.get_xticklabels()] == ["zero", "twelve"] else "xticklabels are %r" % [t.get_text() for t in ax.get_xticklabels()]))
    add("-yticklabels", ["-yticks", "0.5,1", "-yticklabels", "lo,hi"], ("standard",),
        each_axis(lambda ax, f, h, i: None if [t.get_text() for t in ax.get_yticklabels()] == ["lo", "hi"] else "yticklabels are %r" % [t.get_text() for t in ax.get_yticklabels()]))
    add("-xrot", ["-xrot", "45"], ("standard", "multi", "map"), each_axis(lambda ax, f, h, i: None if all(t.get_rotation() == 45 for t in ax.get_xticklabels()) else "x tick rotation %r" % [t.get_rotation() for t in ax.get_xticklabels()][:2]))
    add("-yrot", ["-yrot", "30"], ("standard", "multi", "map"), each_axis(lambda ax, f, h, i: None if all(t.get_rotation() == 30 for t in ax.get_yticklabels()) else "y tick rotation %r" % [t.get_rotation() for t in ax.get_yticklabels()][:2]))
    add("-ylog", ["-ylog"], ("standard",), each_axis(lambda ax, f, h, i: None if ax.get_yscale() == "log" else "yscale is %r" % ax.get_yscale()))
    add("-xlog", ["-xlog"], ("standard",), each_axis(lambda ax, f, h, i: None if ax.get_xscale() == "log" else "xscale is %r" % ax.get_xscale()))

    def leg_texts(ax, f, h, i):
        lg = ax.get_legend()
        if lg is None:
            return "no legend"
        t = [x.get_text() for x in lg.get_texts()]
        return None if t[:2] == ["first", "second sys"] else "legend entries %r" % t
    add("-leg", ["-leg", "first,second_sys"], ("standard",), each_axis(leg_texts))

    def legfs(ax, f, h, i):
        lg = ax.get_legend()
        if lg is None:
            return "no legend"
        s = [x.get_fontsize() for x in lg.get_texts()]
        return None if all(x == 7 for x in s) else "legend font sizes %r" % s
    add("-legfs", ["-legfs", "7"], ("standard",), each_axis(legfs))
    add("-legfs0", ["-legfs", "0"], ("standard",), each_axis(lambda ax, f, h, i: None if ax.get_legend() is None else "legend shown with -legfs 0"))

    def legloc(ax, f, h, i):
        lg = ax.get_legend()
        if lg is None:
            return "no legend"
        return None if lg._loc == matplotlib.legend.Legend.codes["lower left"] else "legend loc code %r" % lg._loc
    add("-legloc", ["-legloc", "lower_left"], ("standard",), each_axis(legloc))

    def per_line(getter, expected, what):
        def fn(ax, f, h, i):
            ls = series(ax)
            if len(ls) != 2:
                return "expected 2 series lines, found %d" % len(ls)
            got = [getter(l) for l in ls]
            return None if got == expected else "%s %r, expected %r" % (what, got, expected)
        return each_axis(fn)
    add("-lc", ["-lc", "green,[0.25,0.5,0.75]"], ("standard",), per_line(lambda l: rgba(l.get_color()), [rgba("green"), rgba([0.25, 0.5, 0.75])], "line colours"))
    add("-lc1", ["-lc", "0.5"], ("standard",), per_line(lambda l: rgba(l.get_color()), [rgba("0.5"), rgba("0.5")], "line colours (cycled)"))
    add("-ls", ["-ls", "--,:"], ("standard",), per_line(lambda l: l.get_linestyle(), ["--", ":"], "line styles"))
    add("-lw", ["-lw", "1,3.5"], ("standard",), per_line(lambda l: l.get_linewidth(), [1.0, 3.5], "line widths"))
    add("-ma", ["-ma", "x,*"], ("standard",), per_line(lambda l: l.get_marker(), ["x", "*"], "markers"))
    add("-ms", ["-ms", "3,11"], ("standard",), per_line(lambda l: l.get_markersize(), [3.0, 11.0], "marker sizes"))
    add("-labfs", ["-labfs", "9"], ("standard", "multi"), each_axis(lambda ax, f, h, i: None if ax.xaxis.label.get_fontsize() == 9 and (ax.get_ylabel() == "" or ax.yaxis.label.get_fontsize() == 9) else
                                                               "label font sizes %r" % [ax.xaxis.label.get_fontsize(), ax.yaxis.label.get_fontsize()]))
    add("-tickfs", ["-tickfs", "6"], ("standard", "multi", "map"), each_axis(lambda ax, f, h, i: None if all(t.get_fontsize() == 6 for t in ax.get_xticklabels() + ax.get_yticklabels()) else
                                                                 "tick font sizes %r" % sorted(set(t.get_fontsize() for t in ax.get_xticklabels() + ax.get_yticklabels()))))
    add("-titlefs", ["-title", "T", "-titlefs", "7"], ("standard", "multi", "map"), each_axis(lambda ax, f, h, i: None if ax.title.get_fontsize() == 7 else "title font size %r" % ax.title.get_fontsize()))

    def grid_prop(getter, expected, what):
        def fn(ax, f, h, i):
            if "-nogrid" in i["tokens"]:
                return None
            gl = ax.xaxis.get_gridlines() + ax.yaxis.get_gridlines()
            if not gl or not all(g.get_visible() for g in gl):
                return "grid not visible"
            got = sorted(set(getter(g) for g in gl), key=repr)
            return None if got == [expected] else "grid %s %r, expected %r" % (what, got, expected)
        return each_axis(fn)
    add("-gc", ["-gc", "magenta"], ("standard", "multi", "map"), grid_prop(lambda g: rgba(g.get_color()), rgba("magenta"), "colour"))
    add("-gs", ["-gs", "--"], ("standard", "multi", "map"), grid_prop(lambda g: g.get_linestyle(), "--", "style"))
    add("-gw", ["-gw", "3"], ("standard", "multi", "map"), grid_prop(lambda g: g.get_linewidth(), 3.0, "width"))

    def nogrid(ax, f, h, i):
        gl = ax.xaxis.get_gridlines() + ax.yaxis.get_gridlines()
        return None if not any(g.get_visible() for g in gl) else "grid visible with -nogrid"
    add("-nogrid", ["-nogrid"], ("standard", "multi", "map"), each_axis(nogrid))
    add("-sp", ["-sp"], ("standard",), each_axis(lambda ax, f, h, i: None if any(str(l.get_label()) == "ideal" and all(float(y) == 0 for y in l.get_ydata()) for l in ax.get_lines()) else
                                                 "no perfect-score line at 0"))
    add("-aspect", ["-aspect", "2"], ("standard",), each_axis(lambda ax, f, h, i: None if ax.get_aspect() == 2.0 else "aspect is %r" % (ax.get_aspect(),)))
    add("-fs", ["-fs", "10,4"], ("standard", "map", "multi"), lambda fig, h, i: [] if tuple(fig.get_size_inches()) == (10.0, 4.0) else ["figure size %r" % (tuple(fig.get_size_inches()),)])

    def margins(fig, h, i):
        sp = fig.subplotpars
        got = (sp.left, sp.right, sp.top, sp.bottom)
        return [] if got == (0.2, 0.8, 0.85, 0.15) else ["subplot margins %r" % (got,)]
    add("-margins", ["-left", "0.2", "-right", "0.8", "-top", "0.85", "-bottom", "0.15"], ("standard", "multi"), margins)

    def nomargin(fig, h, i):
        sp = fig.subplotpars
        got = (sp.left, sp.right, sp.top, sp.bottom)
        return [] if got == (0, 1, 1, 0) else ["subplot margins %r with -nomargin" % (got,)]
    add("-nomargin", ["-nomargin"], ("standard", "multi"), nomargin)

    def png_size(fig, h, i):
        with open(i["file"], "rb") as f:
            head = f.read(32)
        w, hh = struct.unpack(">II", head[16:24])
        return [] if (w, hh) == (6 * 50, 3 * 50) else ["image is %dx%d pixels, expected 300x150" % (w, hh)]
    add("-dpi", ["-fs", "6,3", "-dpi", "50", "-left", "0.1"], ("standard",), png_size)
    # 0 is a documented margin value ("range 0-1"): with any margin given the image is exactly size x dpi pixels
    add("-dpi-left0", ["-fs", "6,3", "-dpi", "50", "-left", "0"], ("standard", "multi"), png_size)
    add("-dpi-bottom0", ["-fs", "6,3", "-dpi", "50", "-bottom", "0"], ("standard",), png_size)
    add("-dpi-top1", ["-fs", "6,3", "-dpi", "50", "-top", "1", "-right", "1"], ("standard",), png_size)

    def annotations(ax, f, h, i):
        txt = [t.get_text() for t in ax.texts]
        want = 3 if h == "map" else 6          # one per plotted point: 3 locations per map panel, 2 lines x 3 lead times
        return None if len(txt) >= want else "only %d annotations" % len(txt)
    add("-a", ["-a"], ("standard", "map"), each_axis(annotations))
    add("-afs", ["-a", "-afs", "5"], ("standard", "map"), each_axis(lambda ax, f, h, i: None if ax.texts and all(t.get_fontsize() == 5 for t in ax.texts) else
                                                               "annotation font sizes %r" % sorted(set(t.get_fontsize() for t in ax.texts))))

    def af(ax, f, h, i):
        txt = [t.get_text().split() for t in ax.texts]
        return None if txt and all(len(t) == 1 for t in txt) else "annotation fields %r" % txt[:3]
    add("-af", ["-a", "-af", "score"], ("standard",), each_axis(af))

    def af_location(ax, f, h, i):
        # 'lat,lon,elev,location' are documented annotation fields for maps and location-related x-axes
        want = set("%g %g %g %g" % (l[1], l[2], l[3], l[0]) for l in gen.std_locs(3, core.seed()))
        got = set(t.get_text().strip() for t in ax.texts)
        return None if got == want else "annotation texts %r, expected %r" % (sorted(got)[:3], sorted(want)[:3])
    add("-af-location", ["-a", "-af", "lat,lon,elev,location"], ("map", "standard-loc", "mapimpact", "obsfcst-loc"), each_axis(af_location))

    # options spread over two --config files ("This flag can appear multiple times"): all of them take effect
    cd = os.path.join(H.scratch(), "c17cfg")
    os.makedirs(cd, exist_ok=True)
    f1, f2 = os.path.join(cd, "style.txt"), os.path.join(cd, "figure.txt")
    with open(f1, "w") as fh:
        fh.write("-title My_title\n")
    with open(f2, "w") as fh:
        fh.write("-xlabel The_x\n-ylabel The_y\n")

    def two_configs(ax, f, h, i):
        got = (ax.get_title(), ax.get_xlabel(), ax.get_ylabel())
        return None if got == ("My title", "The_x", "The_y") else "title / labels from two --config files are %r" % (got,)
    add("--config-x2", ["--config", f1, "--config", f2], ("standard", "multi"), each_axis(two_configs))

    def clim(fig, h, i):
        out = []
        for ax in main_axes(fig, h):
            for c in ax.collections:
                if c.get_array() is not None and tuple(c.get_clim()) != (0.0, 2.5):
                    out.append("colour limits %r" % (tuple(c.get_clim()),))
        return out
    add("-clim", ["-clim", "0,2.5"], ("map",), clim)

    def clabel(fig, h, i):
        cbs = [ax for ax in fig.axes if ax.get_label() == "<colorbar>"]
        labs = [ax.get_ylabel() for ax in cbs]
        return [] if labs and all(l == "My_c" for l in labs) else ["colorbar labels %r" % labs]
    add("-clabel", ["-clabel", "My_c"], ("map",), clabel)
    return opts


MAGIC = {"png": b"\x89PNG", "pdf": b"%PDF", "svg": b"<?xml", "eps": b"%!PS", "jpg": b"\xff\xd8"}


def run_host(host, tokens, seed, ext="png"):
    import matplotlib.pyplot as mpl
    paths = paths_for(seed)
    out = os.path.join(H.scratch(), "c17-%d.%s" % (os.getpid(), ext))
    if os.path.exists(out):
        os.remove(out)
    r = H.run_cli(paths + HOSTS[host] + list(tokens) + ["-f", out])
    fig = mpl.gcf() if r.kind == "ok" else None
    return r, fig, out


def h_single(ctx):
    seed = core.seed()
    opts = OPTIONS()
    host = ctx.choose("host", ("standard", "map", "multi", "standard-loc", "mapimpact", "obsfcst-loc"), free=True)
    cand = [o for o in opts if host in o[2]]
    o = ctx.choose("option", cand, free=True)
    name, tokens, hosts, fn = o
    ctx.note("argv", HOSTS[host] + tokens)
    r, fig, out = run_host(host, tokens, seed)
    if r.kind != "ok":
        ctx.fail("single:%s:%s:%s" % (name, r.kind, r.site or "rejected"), host=host, stdout=r.stdout[-200:])
        return
    ctx.require(os.path.exists(out) and open(out, "rb").read(4) == MAGIC["png"], "file:not-written", host=host)
    probs = fn(fig, host, {"tokens": tokens, "file": out})
    for p in probs:
        ctx.fail("option-not-honoured:%s" % name, host=host, problem=p)
    ctx.observe((host, name))
    ctx.outcome(host)
    ctx.nontrivial()


def h_pairs(ctx):
    seed = core.seed()
    opts = [o for o in OPTIONS() if "standard" in o[2]]
    i = ctx.choose("first", list(range(len(opts))), free=True)
    j = ctx.choose("second", list(range(len(opts))), free=True)
    if i >= j:
        ctx.outcome("skip")
        return
    a, b = opts[i], opts[j]
    fa = set(t for t in a[1] if t.startswith("-") and not _isnum(t))
    fb = set(t for t in b[1] if t.startswith("-") and not _isnum(t))
    if fa & fb:
        ctx.outcome("same-flag")
        return
    # pairs whose documented effects exclude each other are not independence cases
    names = {a[0], b[0]}
    if names & {"-legfs0"} and names & {"-leg", "-legfs", "-legloc"}:
        ctx.outcome("exclusive")
        return
    if names == {"-margins", "-nomargin"} or names == {"-xticks", "-xlog"} or names == {"-xticks-wide", "-xlog"} or names == {"-yticks-wide", "-ylog"} or ("-xlog" in names and names & {"-xlim", "-xticklabels"}) or ("-ylog" in names and names & {"-yticks", "-yticklabels", "-ylim"}):
        ctx.outcome("exclusive")
        return
    if "-leg" in names:
        pass
    tokens = a[1] + b[1]
    ctx.note("argv", HOSTS["standard"] + tokens)
    r, fig, out = run_host("standard", tokens, seed)
    if r.kind != "ok":
        ctx.fail("pair:%s:%s" % (r.kind, r.site or "rejected"), options=[a[0], b[0]], stdout=r.stdout[-200:])
        return
    for o, other in ((a, b), (b, a)):
        for p in o[3](fig, "standard", {"tokens": tokens, "file": out}):
            ctx.fail("option-not-honoured:%s" % o[0], together_with=other[0], problem=p)
    ctx.observe((a[0], b[0]))
    ctx.outcome("pair")
    ctx.nontrivial()


def _isnum(s):
    try:
        float(s)
        return True
    except ValueError:
        return False


def h_formats(ctx):
    seed = core.seed()
    ext = ctx.choose("extension", ("png", "pdf", "svg", "eps", "jpg"), free=True)
    host = ctx.choose("host", ("standard", "multi"), free=True)
    r, fig, out = run_host(host, [], seed, ext=ext)
    if r.kind != "ok":
        ctx.fail("format:%s:%s:%s" % (ext, r.kind, r.site or "rejected"), stdout=r.stdout[-200:])
        return
    if not ctx.require(os.path.exists(out), "format:file-not-written:%s" % ext):
        return
    head = open(out, "rb").read(8)
    ctx.require(head.startswith(MAGIC[ext]) or (ext == "svg" and head.startswith(b"<svg")), "format:wrong-content:%s" % ext, head=repr(head))
    ctx.observe((ext, host))
    ctx.outcome(ext)
    ctx.nontrivial()


def run(tier, only=None):
    subs = []
    for name, h in (("single", h_single), ("pairs", h_pairs), ("formats", h_formats)):
        if only and only != name:
            continue
        t0 = time.time()
        st = explore.explore(h, mode="full", repo_root=core.REPO, time_cap=(500 if tier == "quick" else 3000))
        bound = {"single": "every option on every host it applies to (standard plot, map, pithist; location annotation fields also on -x location, mapimpact, obsfcst -x location)", "pairs": "all pairs of options on the standard plot",
                 "formats": "5 file extensions x 2 hosts"}[name]
        subs.append(core.Sub.from_e1(name, st, bound=bound, rule="one execution = one figure; the documented figure property of every option present is read back", min_outcomes=1,
                                     wall=time.time() - t0))
    return subs


def replay(rec):
    h = {"single": h_single, "pairs": h_pairs, "formats": h_formats}[rec["subcheck"]]
    ctx, _ = explore.replay(h, rec["choices"], None, repo_root=core.REPO)
    return [v.locus for v in ctx.violations if v.locus == rec["signature"][1]]
