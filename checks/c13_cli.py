"""C13 - command-line options mean what the help text says.

 model     an independent interpreter of the documented option grammar turns argv into a reference configuration (or a documented
           rejection); mc/ref/dataset.py + reference metrics turn it into the expected CSV.  dev(k) over the data options
           (-m -x -agg -r -b -obs/-fcst -c/-C -T/-Tagg/-Tx, the ten subsetting options, -leg, -acc) from `A B -m mae -type csv`;
           every explored command line is a model trace replayed against verif.driver.run
 order     for option sets of <= 4 groups: ALL permutations of the groups and all positions of the input files among them
           must print what the canonical order prints
 config    every partition of the option groups between the command line and one or two --config files
 lists     --list-times / --list-dates / --list-locations / --list-thresholds / --list-quantiles against the reference selection
 vectors   full grid start, end in {-2..3 step 1/2}, step in {+-0.1, +-1/4, +-1/2, +-1, 2, absent}, comma mixtures; date ranges for
           every start day of a 3-year window x length x step
 reject    unknown flag, flag without value, malformed vectors, unknown axis / aggregator / metric, unreadable or invalid input files,
           ranges without exactly two values, non-positive -T, quantiles outside [0,1], legend count mismatch - alone and combined with
           every single valid option at every position
"""
import itertools
import math
import os
import time
from decimal import Decimal

import numpy as np

from mc import core, explore, gen, datasets
from mc import harness as H
from mc.ref import dataset as RD
from mc.ref import calendar as cal
from mc.ref import scores as RS
from mc.ref import aggregators as AG
from checks import common_data as CD
from checks import c12_tables as T12
from checks import c11_slicing as T11

PID = "C13"
LEVEL = "model_checking"
TECHNIQUE = "exhaustive replay of every trace of an explicit model (independent interpreter of the documented option grammar + reference dataset/metric models) against verif.driver.run: deviation-bounded option sets, all permutations of option groups, all --config partitions, full grids of vector syntax, rejection cases x positions"
ASSUMPTIONS = ["repeated flags and input files inside --config files are excluded (order semantics undocumented)",
               "non-numeric values for scalar numeric flags (-T x, -dpi x) are not in the documented rejection list and are not tested",
               "only ranges whose step points from start towards end are documented vector syntax"]

DAY = 86400
TIMES = T12.TIMES
LOCS = None


def build(seed, n=2, with_clim=False, clim_tmax=True):
    inputs = T12.build(n, seed)
    for k, ai in enumerate(inputs):
        # an extra field whose name has an upper-case letter ("the name of any other field in the input files")
        ai.fields["Tmax"] = {pos: v * 2 + 0.25 + k for pos, v in ai.fields["crps"].items()}
    clim = None
    if with_clim:
        locs = gen.std_locs(3, seed)
        clim = datasets.full_input("Clim.txt", TIMES, [0.0, 12.0, 24.0], locs, k=3, seed=seed, missing=[("fcst", (1, 1, 1))])
        if clim_tmax:
            clim.fields["Tmax"] = {pos: v * 2 + 0.125 for pos, v in clim.fields["crps"].items()}
        else:
            clim.name = "ClimNoTmax.txt"
    return inputs, clim


def write(inputs, clim, sub):
    d = os.path.join(H.scratch(), sub)
    os.makedirs(d, exist_ok=True)
    paths = []
    for ai in inputs + ([clim] if clim else []):
        p = os.path.join(d, ai.name)
        if not os.path.exists(p):
            gen.text_file(ai, p)
        paths.append(p)
    return paths[:len(inputs)], (paths[-1] if clim else None)


# ---- the model: option groups -> reference configuration -----------------------------------------------------------
def option_menu(seed):
    locs = gen.std_locs(3, seed)
    ids = [l[0] for l in locs]
    d0 = cal.unixtime_to_date(TIMES[0])
    d2 = cal.unixtime_to_date(TIMES[2])
    return {
        "-agg": [("-agg", a) for a in ("median", "max", "count", "0.75")],
        "-b": [("-b", b) for b in ("below", "above=", "below=")],
        "-t": [("-t", "%d,%d" % (TIMES[2], TIMES[0]))],
        "-d": [("-d", "%d" % d0), ("-d", "%d:%d" % (d0, d2))],
        "-tod": [("-tod", "0"), ("-tod", "6,12")],
        "-o": [("-o", "0,24"), ("-o", "12:12:24")],
        "-l": [("-l", "%d,%d" % (ids[2], ids[0]))],
        "-lx": [("-lx", "%d" % ids[1])],
        "-latrange": [("-latrange", "40,42.5")],
        "-lonrange": [("-lonrange", "-117,-100")],
        "-elevrange": [("-elevrange", "1250,1500")],
        "-obsrange": [("-obsrange", "0.5,2")],
        "-c": [("-c", "<clim>"), ("-C", "<clim>")],
        # "-Tagg: a number between 0 and 1 returns a specific quantile (e.g. 0.5 is the median)": the same statistic as the named one, also for
        # windows that contain a missing value
        "-T": [("-T", "24"), ("-T", "13", "-Tagg", "max"), ("-T", "48", "-Tx", "time", "-Tagg", "sum"), ("-T", "24", "-Tagg", "0.5"), ("-T", "25", "-Tagg", "1")],
        "-leg": [("-leg", "first_sys,second")],
        "-acc": [("-acc",)],
        "-fcst": [("-fcst", "crps"), ("-obs", "fcst"), ("-fcst", "Tmax")],
        # "-r thresholds ... (only used by some metrics)": no effect on the others, also next to -q for a quantile metric
        "-r-unused": [("-r", "1.5")],
    }


def parse_vector(text, is_date=False):
    """the documented comma / colon syntax, evaluated in exact decimals"""
    out = []
    for part in text.split(","):
        bits = part.split(":")
        if len(bits) == 1:
            out.append(Decimal(bits[0]))
            continue
        a = Decimal(bits[0])
        b = Decimal(bits[-1])
        s = Decimal(bits[1]) if len(bits) == 3 else Decimal(1)
        if is_date:
            cur = int(a)
            while cur <= int(b):
                out.append(Decimal(cur))
                cur = cal.add_days(cur, int(s))
        else:
            k = 0
            while (s > 0 and a + k * s <= b) or (s < 0 and a + k * s >= b):
                out.append(a + k * s)
                k += 1
    return [float(x) for x in out]


def interpret(groups, metric, axis, seed, inputs, clim, r_list=None):
    """option groups -> (kwargs for RefData, presentation dict)"""
    kw = {}
    pres = {"agg": "mean", "bin": T12.DEFAULT_BIN.get(metric, "above"), "legend": None, "acc": False, "clim": None, "thresholds": r_list}
    for g in groups:
        f = g[0]
        if f == "-agg":
            pres["agg"] = g[1] if not _isnum(g[1]) else float(g[1])
        elif f == "-b":
            pres["bin"] = g[1]
        elif f == "-t":
            kw["times"] = parse_vector(g[1])
        elif f == "-d":
            kw["dates"] = [int(x) for x in parse_vector(g[1], True)]
        elif f == "-tod":
            kw["tods"] = [int(x) for x in parse_vector(g[1])]
        elif f == "-o":
            kw["leadtimes"] = parse_vector(g[1])
        elif f == "-l":
            kw["locations"] = parse_vector(g[1])
        elif f == "-lx":
            kw["locations_x"] = parse_vector(g[1])
        elif f == "-latrange":
            kw["lat_range"] = parse_vector(g[1])
        elif f == "-lonrange":
            kw["lon_range"] = parse_vector(g[1])
        elif f == "-elevrange":
            kw["elev_range"] = parse_vector(g[1])
        elif f == "-obsrange":
            kw["obs_range"] = parse_vector(g[1])
        elif f in ("-c", "-C"):
            kw["clim"] = clim
            kw["clim_type"] = "subtract" if f == "-c" else "divide"
        elif f == "-T":
            kw["agg_len"] = int(g[1])
            rest = dict(zip(g[2::2], g[3::2]))
            kw["agg_method"] = rest.get("-Tagg", "mean")
            try:
                kw["agg_method"] = float(kw["agg_method"])
            except ValueError:
                pass
            kw["agg_axis"] = rest.get("-Tx", "leadtime")
        elif f == "-leg":
            pres["legend"] = [x.replace("_", " ") for x in g[1].split(",")]
        elif f == "-acc":
            pres["acc"] = True
        elif f == "-fcst":
            kw["fcst_field"] = g[1]
        elif f == "-obs":
            kw["obs_field"] = g[1]
    return kw, pres


def _isnum(s):
    try:
        float(s)
        return True
    except ValueError:
        return False


AGG_AWARE = ("mae", "bias", "rmse", "obs", "fcst")


def expected_table(ref, metric, axis, pres, n):
    thresholds = pres["thresholds"]
    rows = []
    if axis == "threshold":
        ivs = RS.intervals(pres["bin"], thresholds)
        for iv in ivs:
            rows.append([RS.score(ref, metric, i, "no", 0, iv=iv, aggregator=pres["agg"] if metric in AGG_AWARE else "mean") for i in range(n)])
    else:
        iv1 = RS.intervals(pres["bin"], thresholds)[0] if thresholds else None
        for k in range(len(ref.axis_values(axis))):
            rows.append([RS.score(ref, metric, i, axis, k, iv=iv1, aggregator=pres["agg"] if metric in AGG_AWARE else "mean") for i in range(n)])
    if pres["acc"]:
        acc = [0.0] * n
        out = []
        for r in rows:
            cur = []
            for i, e in enumerate(r):
                acc[i] += 0.0 if (e is None or math.isnan(e) or math.isinf(e)) else e
                cur.append(acc[i])
            out.append(cur)
        rows = out
    return rows


def argv_of(paths, climpath, metric, axis, r_list, groups):
    a = list(paths) + ["-m", metric, "-type", "csv", "-x", axis]
    if r_list:
        a += ["-q" if metric == "quantilescore" else "-r", ",".join(gen.fmt_num(x) for x in r_list)]
    for g in groups:
        a += [climpath if x == "<clim>" else x for x in g]
    return a


METRICS = ["mae", "bias", "rmse", "obs", "fcst", "corr", "ets", "hit", "quantilescore"]
AXES = ["leadtime", "time", "location", "month", "day", "timeofday", "leadtimeday", "no", "threshold", "lat", "week", "dayofmonth"]


def h_model(ctx):
    seed = core.seed()
    inputs, clim = build(seed, 2, True)
    paths, climpath = write(inputs, clim, "c13model")
    menu = option_menu(seed)
    metric = ctx.choose("-m", METRICS)
    thr_metric = metric in ("ets", "hit")
    axes = [a for a in AXES if a != "threshold" or thr_metric]
    axis = ctx.choose("-x", axes)
    r_list = None
    if thr_metric:
        r_list = [2.0, 1.0, 3.0] if axis == "threshold" else [2.0]
    if metric == "quantilescore":
        r_list = [0.5]                       # given with -q
    groups = []
    for name in sorted(menu):
        opts = menu[name]
        if name == "-b" and not thr_metric:
            continue
        if name == "-r-unused" and thr_metric:
            continue
        if name == "-fcst" and metric == "quantilescore":
            continue
        if name == "-agg" and metric not in AGG_AWARE:
            continue
        g = ctx.choose(name, [None] + opts)
        if g is not None:
            groups.append(g)
    kw, pres = interpret(groups, metric, axis, seed, inputs, clim, r_list)
    # combinations the documentation does not define are not generated
    if "agg_len" in kw and (("fcst_field" in kw) or ("obs_field" in kw)):
        ctx.outcome("skipped")
        return
    argv = argv_of(paths, climpath, metric, axis, r_list, groups)
    ctx.note("argv", [os.path.basename(a) if a.startswith("/") else a for a in argv])
    r = H.run_cli(argv)
    if r.kind == "crash":
        ctx.fail("model:crash:%s" % r.site, argv=ctx.notes["argv"])
        return
    try:
        ref = RD.RefData(inputs, **kw)
        empty = not ref.T
    except RD.RefError:
        ref = None
        empty = True
    n = 2
    if ref is None:
        if r.kind == "exit":
            ctx.require(r.code not in (0, None) and "Error" in r.stdout, "model:rejection-without-message", stdout=r.stdout[-200:])
            ctx.outcome("rejected")
        else:
            hdr, rows = CD.parse_csv(r.stdout)
            ctx.require(not any(_finite(c) for row in rows for c in row[-n:]), "model:empty-selection-gives-numbers", stdout=r.stdout[-300:])
            ctx.outcome("empty")
        ctx.observe(("empty", tuple(ctx.notes["argv"])))
        return
    if r.kind != "ok":
        ctx.fail("model:valid-command-rejected", argv=ctx.notes["argv"], stdout=r.stdout[-300:])
        return
    hdr, rows = CD.parse_csv(r.stdout)
    exp = expected_table(ref, metric, axis, pres, n)
    lead = 4 if axis in RD.LOC_AXES else 1
    names = pres["legend"] or [ai.name for ai in inputs]
    ctx.require(hdr is not None and hdr[lead:] == names, "model:header", expected=names, actual=hdr)
    if not ctx.require(len(rows) == len(exp), "model:row-count", expected=len(exp), actual=len(rows), argv=ctx.notes["argv"]):
        return
    tol_digits = 5 if "agg_len" in kw else 6
    if not ctx.require(all(len(row) == lead + n for row in rows), "model:column-count", expected=lead + n, actual=sorted(set(len(row) for row in rows)), argv=ctx.notes["argv"]):
        return
    for k, (row, e_row) in enumerate(zip(rows, exp)):
        for i in range(n):
            e = e_row[i]
            cell = row[lead + i]
            # a bias of 6e-4 between ratios near 1 held in float32 is only good to ~1e-7 absolutely
            ok = CD.close_printed(e, cell, tol_digits, abs_tol=5e-7) if (e is not None and not (isinstance(e, float) and (math.isinf(e) or math.isnan(e)))) else cell in ("nan", "inf", "-inf")
            if not ok:
                culprit = "+".join(sorted(set(g[0] for g in groups))) or "base"
                ctx.fail("model:value:%s" % culprit, argv=ctx.notes["argv"], row=k, input=i, expected=e, actual=cell)
    ctx.observe(tuple(tuple(r) for r in rows))
    ctx.outcome("ok")
    ctx.nontrivial(len(groups) > 0)


def _finite(c):
    try:
        return math.isfinite(float(c))
    except ValueError:
        return False


# ---- order independence and --config --------------------------------------------------------------------------------
ORDER_POOL = [("-m", "mae"), ("-x", "time"), ("-agg", "max"), ("-o", "0,24"), ("-l", "<id0>,<id2>"), ("-lx", "<id2>"), ("-d", "<d0>:<d2>"),
              ("-obsrange", "0.5,2"), ("-leg", "Tom's#1,b"), ("-acc",), ("-type", "csv"), ("-T", "24"), ("-Tagg", "max"), ("-c", "<clim>"), ("-tod", "0,6"),
              ("-latrange", "40,42.5"), ("-b", "below"), ("-r", "2")]


def subst(g, seed, climpath):
    ids = [l[0] for l in gen.std_locs(3, seed)]
    rep = {"<id0>": str(ids[0]), "<id2>": str(ids[2]), "<d0>": str(cal.unixtime_to_date(TIMES[0])), "<d2>": str(cal.unixtime_to_date(TIMES[2])), "<clim>": climpath}
    out = []
    for x in g:
        for k, v in rep.items():
            x = x.replace(k, v)
        out.append(x)
    return tuple(out)


def h_order(ctx):
    seed = core.seed()
    inputs, clim = build(seed, 2, True)
    paths, climpath = write(inputs, clim, "c13order")
    size = ctx.params["size"]
    combos = ctx.params["combos"]
    combo = ctx.choose("groups", combos, free=True)
    groups = [subst(ORDER_POOL[i], seed, climpath) for i in combo]
    base = [("-m", "mae"), ("-type", "csv")]
    have = set(g[0] for g in groups)
    fixed = [b for b in base if b[0] not in have]
    items = [("FILE", p) for p in paths] + groups
    canon = None
    outs = set()
    nperm = 0
    for perm in itertools.permutations(range(len(items))):
        # the two input files keep their relative order (it defines the column order)
        fpos = [perm.index(0), perm.index(1)]
        if fpos[0] > fpos[1]:
            continue
        argv = []
        for j in perm:
            it = items[j]
            argv += [it[1]] if it[0] == "FILE" else list(it)
        for b in fixed:
            argv += list(b)
        r = H.run_cli(argv)
        nperm += 1
        key = (r.kind, r.code, r.stdout if r.kind == "ok" else "")
        if r.kind == "crash":
            ctx.fail("order:crash:%s" % r.site, argv=[os.path.basename(a) if a.startswith("/") else a for a in argv])
            continue
        if canon is None:
            canon = (key, argv)
        elif key != canon[0]:
            ctx.fail("order:output-depends-on-option-order:%s" % "+".join(sorted(g[0] for g in groups)),
                     first=[os.path.basename(a) if a.startswith("/") else a for a in canon[1]], first_out=canon[0][2][-200:],
                     other=[os.path.basename(a) if a.startswith("/") else a for a in argv], other_out=key[2][-200:], kinds=[canon[0][0], key[0]])
            break
        outs.add(key)
    ctx.count(nperm)
    ctx.observe((combo, canon[0][2] if canon else None))
    ctx.outcome(canon[0][0] if canon else "none")
    ctx.nontrivial(canon is not None and canon[0][0] == "ok")


def partitions(items, nfiles):
    """assign each item to the command line (0) or one of the config files (1..nfiles)"""
    return list(itertools.product(range(nfiles + 1), repeat=len(items)))


def h_config(ctx):
    seed = core.seed()
    inputs, clim = build(seed, 2, True)
    paths, climpath = write(inputs, clim, "c13config")
    combo = ctx.choose("groups", ctx.params["combos"], free=True)
    groups = [subst(ORDER_POOL[i], seed, climpath) for i in combo]
    have = set(g[0] for g in groups)
    if "-m" not in have:
        groups.append(("-m", "mae"))
    if "-type" not in have:
        groups.append(("-type", "csv"))
    inline = list(paths)
    for g in groups:
        inline += list(g)
    r0 = H.run_cli(inline)
    if r0.kind == "crash":
        ctx.fail("config:crash:%s" % r0.site)
        return
    d = os.path.join(H.scratch(), "c13cfg%d" % os.getpid())
    os.makedirs(d, exist_ok=True)
    n = 0
    for assign in partitions(groups, 2):
        if not any(assign):
            continue
        files = {1: [], 2: []}
        cmd = list(paths)
        for g, a in zip(groups, assign):
            if a == 0:
                cmd += list(g)
            else:
                files[a].append(g)
        for k in (1, 2):
            if files[k]:
                cp = os.path.join(d, "cfg%d.txt" % k)
                style = (n + k) % 3
                with open(cp, "w") as f:
                    if style == 0:
                        f.write("\n".join(" ".join(g) for g in files[k]) + "\n")
                    elif style == 1:
                        f.write(" ".join(" ".join(g) for g in files[k]))
                    else:
                        f.write("\n\n".join("\n".join(g) for g in files[k]) + "\n\n")
                # --config flags go to varying positions
                pos = (n * 3 + k) % (len(cmd) + 1) if (n % 2) else len(cmd)
                # never split a flag from its value
                while 0 < pos < len(cmd) and cmd[pos - 1].startswith("-") and not _isnum(cmd[pos - 1]) and cmd[pos - 1] not in ("-acc",):
                    pos += 1
                cmd[pos:pos] = ["--config", cp]
        r = H.run_cli(cmd)
        n += 1
        if (r.kind, r.code, r.stdout if r.kind == "ok" else "") != (r0.kind, r0.code, r0.stdout if r0.kind == "ok" else ""):
            ctx.fail("config:differs-from-inline:%d-config-files" % len([k for k in files if files[k]]), inline=[os.path.basename(a) if a.startswith("/") else a for a in inline],
                     with_config=[os.path.basename(a) if a.startswith("/") else a for a in cmd], config_files={k: [" ".join(g) for g in v] for k, v in files.items()},
                     inline_out=(r0.kind, r0.stdout[-200:]), config_out=(r.kind, r.stdout[-200:]))
            break
    ctx.count(n)
    ctx.observe((combo, r0.stdout))
    ctx.outcome(r0.kind)
    ctx.nontrivial(r0.kind == "ok")


# ---- listings ----------------------------------------------------------------------------------------------------------
def h_lists(ctx):
    seed = core.seed()
    inputs, clim = build(seed, 2, False)
    paths, _ = write(inputs, None, "c13lists")
    menu = option_menu(seed)
    sub = ctx.choose("subset", [None] + menu["-t"] + menu["-d"] + menu["-tod"] + menu["-l"] + menu["-lx"] + menu["-latrange"] + menu["-elevrange"], free=True)
    which = ctx.choose("list", ("--list-times", "--list-dates", "--list-locations", "--list-thresholds", "--list-quantiles"), free=True)
    pos = ctx.choose("position", ("end", "start", "middle"), free=True)
    groups = [sub] if sub else []
    kw, pres = interpret(groups, "mae", "leadtime", seed, inputs, None)
    ref = RD.RefData(inputs, **kw)
    argv = list(paths)
    for g in groups:
        argv += list(g)
    if pos == "end":
        argv += [which]
    elif pos == "start":
        argv = [which] + argv
    else:
        argv[1:1] = [which]
    r = H.run_cli(argv)
    if r.kind != "ok":
        ctx.fail("lists:%s:%s" % (r.kind, r.site or "rejected"), stdout=r.stdout[-200:])
        return
    lines = [l for l in r.stdout.split("\n") if l.strip() and not l.startswith("Warning")]
    if which == "--list-times":
        got = [int(l) for l in lines]
        ctx.require(got == [int(t) for t in ref.T], "lists:times", expected=ref.T, actual=got)
    elif which == "--list-dates":
        exp = []
        for t in ref.T:
            y, m, d, day, sec = cal.split(t)
            exp.append("%04d%02d%02d %02d:%02d:%02d" % (y, m, d, sec // 3600, sec // 60 % 60, sec % 60))
        ctx.require(lines == exp, "lists:dates", expected=exp, actual=lines)
    elif which == "--list-locations":
        rows = [l.split() for l in lines[1:]]
        got = [(int(float(x[0])), float(x[1]), float(x[2]), float(x[3])) for x in rows]
        exp = [(int(m[0]), round(m[1], 2), round(m[2], 2), round(m[3], 1)) for m in ref.locmeta]
        ctx.require(got == exp, "lists:locations", expected=exp, actual=got)
    elif which == "--list-thresholds":
        got = [float(x) for x in lines[0].split()[1:]] if lines else []
        ctx.require(got == [1.0, 2.0, 3.0], "lists:thresholds", actual=got)
    else:
        got = [float(x) for x in lines[0].split()[1:]] if lines else []
        ctx.require(got == [0.1, 0.5, 0.9], "lists:quantiles", actual=got)
    ctx.observe((sub, which, tuple(lines)))
    ctx.outcome(which)
    ctx.nontrivial()


# ---- vector syntax --------------------------------------------------------------------------------------------------------
def h_vectors(ctx):
    import verif.util
    start = ctx.choose("start", [x * 0.5 for x in range(-4, 7)], free=True)
    checked = 0
    steps = [None, "0.1", "0.25", "0.5", "1", "2", "-0.1", "-0.25", "-0.5", "-1"]
    for end in [x * 0.5 for x in range(-4, 7)]:
        for step in steps:
            s = 1.0 if step is None else float(step)
            if (end - start) * s < 0:
                continue            # the step points away from the end: not documented syntax
            text = "%s:%s" % (gen.fmt_num(start), gen.fmt_num(end)) if step is None else "%s:%s:%s" % (gen.fmt_num(start), step, gen.fmt_num(end))
            # pieces are independent: a two-part range after a three-part one (and vice versa) still steps by 1
            for variant in (text, "7," + text, text + ",-3.5", text + "," + text, text + ",10:12", "10:12," + text, text + ",20:-2:16,30:31"):
                kind, got, site, out = H.quiet_call(verif.util.parse_numbers, variant)
                exp = parse_vector(variant)
                checked += 1
                if kind != "ok":
                    ctx.fail("vectors:%s:%s" % (kind, site or "rejected-valid-syntax"), text=variant, stdout=out[-100:])
                    continue
                ok = len(got) == len(exp) and all(abs(float(a) - b) <= 1e-6 for a, b in zip(got, exp))
                if not ok:
                    ctx.fail("vectors:range-%s" % ("end-point-missing" if len(got) == len(exp) - 1 else "values"), text=variant, expected=exp, actual=[float(x) for x in got])
    # large steps (unix times, station ids): the end point may fall just short of the next grid value
    base = 1325376000 + int(start * 2) * 3600
    for step in (3600, 21600, 86400, 100000):
        for n in (0, 1, 3):
            for off in (-1, 0, 1, step // 2):
                end = base + n * step + off
                if end < base:
                    continue
                text = "%d:%d:%d" % (base, step, end)
                kind, got, site, out = H.quiet_call(verif.util.parse_numbers, text)
                exp = parse_vector(text)
                checked += 1
                if kind != "ok":
                    ctx.fail("vectors:%s:%s" % (kind, site or "rejected-valid-syntax"), text=text)
                elif not (len(got) == len(exp) and all(abs(float(a) - b) <= 1e-6 for a, b in zip(got, exp))):
                    ctx.fail("vectors:range-%s" % ("beyond-end-point" if len(got) > len(exp) else "values"), text=text, expected=exp, actual=[float(x) for x in got])
    ctx.count(checked)
    ctx.observe(start)
    ctx.outcome("ok")
    ctx.nontrivial()


def h_dates(ctx):
    import verif.util
    month = ctx.choose("start-month", list(range(36)), free=True)
    y, m = 2011 + month // 12, month % 12 + 1
    d0 = cal.days_from_civil(y, m, 1)
    d1 = cal.days_from_civil(y + (m == 12), m % 12 + 1, 1)
    checked = 0
    for day in range(d0, d1):
        yy, mm, dd = cal.civil_from_days(day)
        start = yy * 10000 + mm * 100 + dd
        for length in (0, 1, 2, 27, 28, 29, 30, 31, 40):
            ey, em, ed = cal.civil_from_days(day + length)
            end = ey * 10000 + em * 100 + ed
            for step in (None, 1, 2, 3, 7):
                text = "%d:%d" % (start, end) if step is None else "%d:%d:%d" % (start, step, end)
                kind, got, site, out = H.quiet_call(verif.util.parse_numbers, text, True)
                exp = [int(x) for x in parse_vector(text, True)]
                checked += 1
                if kind != "ok":
                    ctx.fail("dates:%s:%s" % (kind, site or "rejected-valid-syntax"), text=text)
                    continue
                if [int(x) for x in got] != exp:
                    ctx.fail("dates:range", text=text, expected=exp[:5] + ["..."] + exp[-3:], actual=[int(x) for x in got][:5] + ["..."] + [int(x) for x in got][-3:])
    ctx.count(checked)
    ctx.observe((y, m))
    ctx.outcome("ok")
    ctx.nontrivial()


# ---- rejections ------------------------------------------------------------------------------------------------------------
def bad_files(d):
    os.makedirs(d, exist_ok=True)
    out = {}
    out["missing"] = os.path.join(d, "does-not-exist.txt")
    out["directory"] = d
    g = os.path.join(d, "garbage.nc")
    with open(g, "wb") as f:
        f.write(bytes(range(256)) * 4)
    out["garbage"] = g
    return out


REJECTS = [
    ("unknown-flag", ["-zzz", "3"]), ("unknown-flag-noval", ["-notanoption"]), ("flag-without-value:-m", None), ("flag-without-value:-r", ["-r"]),
    ("flag-without-value:-x", ["-x"]), ("flag-without-value:-l", ["-l"]), ("flag-without-value:-agg", ["-agg"]), ("flag-without-value:-T", ["-T"]),
    ("flag-without-value:-leg", ["-leg"]), ("flag-without-value:-d", ["-d"]), ("flag-without-value:--config", ["--config"]),
    ("malformed-vector:1:", ["-r", "1:"]), ("malformed-vector::", ["-r", ":"]), ("malformed-vector:1::2", ["-o", "1::2"]), ("malformed-vector:1,,2", ["-l", "1,,2"]),
    ("malformed-vector:a", ["-r", "a"]), ("malformed-vector:1:0:3", ["-o", "1:0:3"]), ("malformed-vector:1:2:3:4", ["-r", "1:2:3:4"]),
    ("unknown-axis", ["-x", "nosuchaxis"]), ("unknown-aggregator", ["-agg", "nosuchagg"]), ("unknown-Tagg", ["-T", "3", "-Tagg", "nosuchagg"]),
    ("unknown-Tx", ["-T", "3", "-Tx", "nosuchaxis"]),
    ("range-1-value:-latrange", ["-latrange", "40"]), ("range-3-values:-latrange", ["-latrange", "40,41,42"]), ("range-1-value:-lonrange", ["-lonrange", "10"]),
    ("range-3-values:-elevrange", ["-elevrange", "1,2,3"]), ("range-1-value:-obsrange", ["-obsrange", "1"]), ("range-3-values:-obsrange", ["-obsrange", "1,2,3"]),
    ("T-zero", ["-T", "0"]), ("T-negative", ["-T", "-1"]), ("q-negative", ["-q", "-0.1"]), ("q-above-one", ["-q", "0.5,1.5"]), ("agg-quantile-above-one", ["-agg", "1.5"]),
    ("legend-count", ["-leg", "only_one"]), ("legend-count-3", ["-leg", "a,b,c"]), ("missing-config-file", ["--config", "<nofile>"]),
    ("input:missing", "FILE:missing"), ("input:directory", "FILE:directory"), ("input:garbage", "FILE:garbage"), ("clim:missing", ["-c", "<missing>"]),
    ("field:not-in-the-files", ["-fcst", "nosuchfield"]), ("field:not-in-the-climatology", ["-c", "<clim-without-Tmax>", "-fcst", "Tmax"]),
]
VALID_SINGLE = [["-x", "time"], ["-agg", "max"], ["-o", "0,24"], ["-tod", "0"], ["-acc"], ["-b", "above"], ["-r", "1,2"], ["-T", "24"], ["-leg", "a,b"], ["-obsrange", "0,5"],
                ["-latrange", "40,45"], ["--list-times"], ["-fcst", "crps"], ["-d", "20120228"]]


def h_reject(ctx):
    seed = core.seed()
    inputs, clim_nt = build(seed, 2, True, clim_tmax=False)
    paths, clim_nt_path = write(inputs, clim_nt, "c13rej")
    bad = bad_files(os.path.join(H.scratch(), "c13bad%d" % os.getpid()))
    name, extra = ctx.choose("rejection", REJECTS, free=True)
    companion = ctx.choose("companion", [None] + VALID_SINGLE, free=True)
    where = ctx.choose("position", ("after", "before", "between-files"), free=True)
    base = list(paths) + ["-m", "mae", "-type", "csv"]
    if name == "flag-without-value:-m":
        base = list(paths) + ["-type", "csv"]
        extra = ["-m"]
        where = "after"          # a flag without its value is only one when it is the last token
    if isinstance(extra, str):
        base = [bad[extra.split(":")[1]]] + base[1:]
        extra = []
    extra = [bad["missing"] if x in ("<nofile>", "<missing>") else clim_nt_path if x == "<clim-without-Tmax>" else x for x in extra]
    if name.startswith("flag-without-value"):
        where = "after"
    comp = list(companion) if companion else []
    if companion and any(x == companion[0] for x in extra):
        comp = []                # a repeated flag is outside the documented grammar
    if companion and companion[0] == "--list-times" and not name.startswith(("unknown-flag", "flag-without", "malformed", "input", "unknown-axis", "missing-config", "clim")):
        # --list-* only needs the dataset: option checks that belong to the computation may not be reached
        comp = []
    if where == "after":
        argv = base + comp + extra
    elif where == "before":
        argv = extra + comp + base
    else:
        argv = [base[0]] + extra + [base[1]] + comp + base[2:]
    ctx.note("argv", [os.path.basename(a) if a.startswith("/") else a for a in argv])
    r = H.run_cli(argv)
    if r.kind == "crash":
        ctx.fail("reject:%s:traceback" % name, site=r.site, argv=ctx.notes["argv"])
    elif r.kind == "ok":
        ctx.fail("reject:%s:silently-accepted" % name, argv=ctx.notes["argv"], stdout=r.stdout[-200:])
    else:
        ok = r.code not in (0, None) and len(r.stdout.strip()) > 0
        ctx.require(ok, "reject:%s:no-message-or-zero-status" % name, code=r.code, stdout=r.stdout[-200:])
    ctx.observe((name, tuple(companion or ()), where, r.kind))
    ctx.outcome(r.kind)
    ctx.nontrivial()


def plan(tier):
    q = tier == "quick"
    pool = range(len(ORDER_POOL))
    combos = [c for k in ((1, 2, 3) if q else (1, 2, 3, 4)) for c in itertools.combinations(pool, k)]
    cfg_combos = [c for k in ((1, 2) if q else (1, 2, 3)) for c in itertools.combinations(pool, k)]
    return [("model", h_model, {}, "dev", 3 if q else 4), ("order", h_order, {"size": 2, "combos": combos}, "full", None),
            ("config", h_config, {"combos": cfg_combos}, "full", None), ("lists", h_lists, {}, "full", None),
            ("vectors", h_vectors, {}, "full", None), ("dates", h_dates, {}, "full", None), ("reject", h_reject, {}, "full", None),
            # -agg also governs the special outputs that aggregate along the x-axis themselves (-m obsfcst): the table oracle of C12
            ("agg-obsfcst", T12.h_obsfcst, {}, "full", None),
            # every -x dimension through the driver on initialisation times that include half hours (the calendar oracle of C11)
            ("axes-cli", T11.h_datasets, {"via": "cli", "subsets": [(16,), (4, 16), (4, 16, 17), (10, 17), (2, 5, 16), (0, 17)]}, "full", None)]


def run(tier, only=None):
    subs = []
    for name, h, params, mode, k in plan(tier):
        if only and only != name:
            continue
        t0 = time.time()
        st = explore.explore(h, mode=mode, k=k, params=params, repo_root=core.REPO, time_cap=(400 if tier == "quick" else 3000))
        bound = {"model": "dev(%s) over -m(8) -x(12) and 17 option groups from the base line" % k,
                 "order": "%d option sets of size <= %d x all permutations of groups and file positions" % (len(params.get("combos", [])), 3 if tier == "quick" else 4),
                 "config": "%d option sets x every partition between command line and two --config files" % len(params.get("combos", [])),
                 "lists": "5 listings x 11 subsetting variants x 3 flag positions", "vectors": "full grid start x end x step x 7 comma mixtures (single range; with plain numbers; with two- and three-part ranges before and after)",
                 "agg-obsfcst": "-m obsfcst: {1,2,3} inputs x 6 axes x {csv,text} x 4 quantile lists x -agg {mean, max}",
                 "axes-cli": "6 sets of initialisation times containing half hours x 15 -x dimensions through the driver (counts, mae, labels)",
                 "dates": "every start day of 36 months x 9 lengths x 5 steps", "reject": "%d rejection cases x %d companions x 3 positions" % (len(REJECTS), len(VALID_SINGLE) + 1)}[name]
        subs.append(core.Sub.from_e1(name, st, bound=bound, rule="one execution = one model trace (command line or family of equivalent command lines) replayed against the driver",
                                     min_outcomes=1, wall=time.time() - t0))
    return subs


def replay(rec):
    for tier in (rec.get("tier", "quick"), "thorough", "quick"):
        for name, h, params, mode, k in plan(tier):
            if name == rec["subcheck"]:
                ctx, _ = explore.replay(h, rec["choices"], None, params=params, repo_root=core.REPO)
                return [v.locus for v in ctx.violations if v.locus == rec["signature"][1]]
    return []
