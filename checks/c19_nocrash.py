"""C19 - documented metric / axis / output-type combinations never crash.

Full cross product (70 metrics + 28 diagrams) x (19 -x values + default) x output types on
generated datasets; every cell is executed through the real driver in-process.  Outcome classes:
ok (output produced) | exit (SystemExit, non-zero, with a message) | crash (anything else).
A crash is a violation keyed by its crash site (exception type + innermost verif frame + source).
"""
import os
import time

from mc import core, explore, datasets
from mc import harness as H

PID = "C19"
LEVEL = "exploration"
TECHNIQUE = "bounded exhaustive enumeration (E1): full cross product of metric x -x x output type (+ -r/-q/-b/-agg variants) through the real driver, outcome classified per cell"
ASSUMPTIONS = ["datasets are the generated small-scope text files of mc/datasets.py",
               "plots are written with -f <png> (interactive windows are out of scope)"]

DIAGRAMS = ["pithist", "obsfcst", "timeseries", "meteo", "qq", "autocorr", "autocov", "fss", "cond", "against",
            "scatter", "change", "spreadskill", "taylor", "error", "freq", "roc", "droc", "droc0", "reliability",
            "discrimination", "performance", "invreliability", "murphy", "bsdecomp", "igncontrib",
            "economicvalue", "marginal"]
XS = [None, "time", "leadtime", "year", "month", "week", "day", "timeofday", "dayofyear", "monthofyear",
      "location", "elev", "lat", "lon", "threshold", "leadtimeday", "no", "obs", "fcst", "dayofmonth"]
TYPES_ALL = ["csv", "text", "plot", "map", "rank", "maprank", "impact", "mapimpact"]
BIN_TYPES = ["below", "below=", "above", "above=", "within", "=within", "within=", "=within="]
AGGS = ["mean", "median", "min", "max", "std", "variance", "iqr", "range", "count", "sum", "meanabs", "absmean",
        "change", "abschange", "0.5", "0.9"]


def metric_names():
    import verif.metric
    names = sorted(m[0].lower() for m in verif.metric.get_all() if m[1].is_valid())
    return names


_FILES = {}


def files_for(shape):
    key = (os.getpid(), shape)
    if key not in _FILES:
        _FILES[key] = datasets.write_text(datasets.shape(shape, core.seed()), "c19-" + shape)
    return _FILES[key]


def run_cell(ctx, shape, metric, x, typ, extra):
    files = files_for(shape)
    argv = list(files) + ["-m", metric]
    if x is not None:
        argv += ["-x", x]
    argv += ["-type", typ] + list(extra)
    out = None
    if typ not in ("csv", "text"):
        out = os.path.join(H.scratch(), "c19-%d.png" % os.getpid())
        if os.path.exists(out):
            os.remove(out)
        argv += ["-f", out]
    ctx.note("argv", ["<%s>" % os.path.basename(f) for f in files] + argv[len(files):])
    ctx.note("shape", shape)
    r = H.run_cli(argv)
    if r.kind == "crash":
        ctx.fail("crash:" + r.site, exception=repr(r.exc)[:300])
        ctx.outcome("crash")
        ctx.observe(("crash", r.site))
        return
    if r.kind == "exit":
        ok = r.code not in (0, None) and "Error" in r.stdout
        if not ok:
            ctx.fail("exit-without-error:%s" % metric, code=r.code, stdout=r.stdout[-300:])
        ctx.outcome("exit")
        ctx.observe(("exit", metric, typ, r.stdout.strip().split("\n")[-1][:80]))
        return
    # returned normally: output must exist
    if out is not None:
        if not (os.path.exists(out) and os.path.getsize(out) > 0):
            ctx.fail("no-output-file:%s:%s" % (metric, typ), stdout=r.stdout[-300:])
        else:
            os.remove(out)
    else:
        body = [l for l in r.stdout.split("\n") if l and not l.startswith("Warning")]
        if len(body) < 1:
            ctx.fail("no-output:%s:%s" % (metric, typ), stdout=r.stdout[-300:])
    ctx.outcome("ok")
    ctx.observe(("ok", metric, x, typ, tuple(extra)))
    ctx.nontrivial()


def h_grid(ctx):
    p = ctx.params
    shape = ctx.choose("shape", p["shapes"], free=True)
    metric = ctx.choose("metric", p["metrics"], free=True)
    x = ctx.choose("x", XS, free=True)
    typ = ctx.choose("type", p["types"], free=True)
    run_cell(ctx, shape, metric, x, typ, ())


def h_variants(ctx):
    p = ctx.params
    metric = ctx.choose("metric", p["metrics"], free=True)
    x = ctx.choose("x", p["vx"], free=True)
    # diagrams only have a plot: their option variants are drawn, the metrics' variants are tabulated (thorough: both for all)
    typ = ctx.choose("type", p["vtypes"] + (["plot"] if (metric in DIAGRAMS and "plot" not in p["vtypes"]) else []), free=True)
    variant = ctx.choose("variant", p["variants"], free=True)
    run_cell(ctx, "regular", metric, x, typ, variant)


def h_interactions(ctx):
    """aggregator x threshold-list x dataset-shape interactions on tables (all-missing slices, repeated lookups)"""
    p = ctx.params
    metric = ctx.choose("metric", p["metrics"], free=True)
    shape = ctx.choose("shape", p["ishapes"], free=True)
    x = ctx.choose("x", p["ix"], free=True)
    agg = ctx.choose("agg", p["iaggs"], free=True)
    r = ctx.choose("r", p["irs"], free=True)
    extra = []
    if agg is not None:
        extra += ["-agg", agg]
    extra += list(r)
    run_cell(ctx, shape, metric, x, "csv", extra)


def h_fieldsets(ctx):
    """files that hold only some of the field families (deterministic only; deterministic + ensemble): metrics whose fields are not
    there must stop with a message, the others must work"""
    p = ctx.params
    shape = ctx.choose("shape", ["deterministic", "ensemble_only"], free=True)
    metric = ctx.choose("metric", p["metrics"], free=True)
    x = ctx.choose("x", [None, "threshold"] + (["location", "no"] if p.get("fs_more") else []), free=True)
    typ = ctx.choose("type", ["csv", "text"] + (["plot"] if p.get("fs_more") else []), free=True)
    variant = ctx.choose("variant", [(), ("-r", "2"), ("-q", "0.5")], free=True)
    run_cell(ctx, shape, metric, x, typ, variant)


def h_masses(ctx):
    """a variable with discrete masses (x0 / x1 in the file header): the PIT is randomised against the file's observations, also
    when options shorten an axis"""
    from mc import gen
    p = ctx.params
    metric = ctx.choose("metric", ["pit", "pithist", "pithistdev", "pithistslope", "pithistshape", "mae", "bs"], free=True)
    ids = [l[0] for l in gen.std_locs(3, core.seed())]
    subset = ctx.choose("subset", [(), ("-l", "%d,%d" % (ids[0], ids[2])), ("-lx", "%d" % ids[1]), ("-o", "0,24"), ("-latrange", "40,42.5"),
                                   ("-t", "%d,%d" % (datasets.T_FEB28_2012, datasets.T_FEB28_2012 + 2 * datasets.DAY)), ("-tod", "0"), ("-d", "20120229:20120301")], free=True)
    typ = ctx.choose("type", ["csv", "plot"], free=True)
    x = ctx.choose("x", [None, "location", "time"], free=True)
    run_cell(ctx, "discrete_mass", metric, x, typ, subset + (("-r", "2") if metric == "bs" else ()))


def h_edgetypes(ctx):
    """the non-default output types with thresholds outside the data range (all-NaN scores)"""
    p = ctx.params
    metric = ctx.choose("metric", p["metrics"], free=True)
    typ = ctx.choose("type", p["etypes"], free=True)
    variant = ctx.choose("variant", p["evariants"], free=True)
    shape = ctx.choose("shape", p["eshapes"], free=True)
    run_cell(ctx, shape, metric, None, typ, variant)


def h_degenerate(ctx):
    """degenerate but well-formed datasets, drawn: one lead time, one time, one location, no valid observation at all - with the
    default axis and with the axis that has a single value"""
    p = ctx.params
    shape = ctx.choose("shape", p["dshapes"], free=True)
    metric = ctx.choose("metric", p["metrics"], free=True)
    x = ctx.choose("x", p["dx"], free=True)
    typ = ctx.choose("type", p["dtypes"], free=True)
    run_cell(ctx, shape, metric, x, typ, ())


def params_for(tier):
    metrics = metric_names() + DIAGRAMS
    variants = [("-r", "1,2,3"), ("-q", "0.1,0.9"), ("-r", "2"), ("-q", "0.5")]
    variants += [("-b", b, "-r", "1,2,3") for b in BIN_TYPES] + [("-b", b) for b in BIN_TYPES] + [("-b", b, "-r", "2") for b in BIN_TYPES]
    variants += [("-agg", a) for a in AGGS]
    # pre-aggregation on either axis (probabilities and quantiles are then derived from the 4-d ensemble array)
    variants += [("-T", "24"), ("-T", "24", "-Tx", "time"), ("-T", "24", "-Tx", "time", "-r", "2"), ("-T", "24", "-Tx", "time", "-q", "0.5")]
    irs = [(), ("-r", "2"), ("-r", "0,5"), ("-q", "0.1,0.9")]
    ev = [(), ("-r", "50"), ("-r", "-50")]
    et = ["rank", "maprank", "impact", "mapimpact", "map"]
    if tier == "quick":
        return {"metrics": metrics, "shapes": ["regular"], "types": ["csv", "text", "plot"],
                "vx": [None, "threshold"], "vtypes": ["csv"], "variants": variants,
                "ishapes": ["missing_slice", "regular"], "ix": [None, "location"], "iaggs": [None, "min", "range", "0.5"], "irs": irs,
                "etypes": et, "evariants": ev, "eshapes": ["regular", "one_input", "three_inputs"], "fs_more": False,
                "dshapes": ["single_leadtime", "no_valid_pair", "single_time", "single_location"], "dx": [None], "dtypes": ["plot"]}
    return {"metrics": metrics, "shapes": ["regular", "single_time", "single_location", "missing_slice"],
            "types": TYPES_ALL, "vx": [None, "threshold", "no", "location"], "vtypes": ["csv", "plot"],
            "variants": variants,
            "ishapes": ["missing_slice", "regular", "single_time", "single_location"], "ix": [None, "location", "time", "no"],
            "iaggs": [None] + AGGS, "irs": irs + [("-r", "50")],
            "etypes": et + ["plot"], "evariants": ev, "eshapes": ["regular", "missing_slice", "single_location", "one_input", "three_inputs"], "fs_more": True,
            "dshapes": ["single_leadtime", "no_valid_pair", "single_time", "single_location"], "dx": [None, "leadtime", "no", "time", "location"], "dtypes": ["plot", "csv", "map", "rank"]}


def run(tier, only=None):
    p = params_for(tier)
    subs = []
    if only in (None, "grid"):
        t0 = time.time()
        st = explore.explore(h_grid, mode="full", params=p, repo_root=core.REPO)
        subs.append(core.Sub.from_e1(
            "grid", st, bound="full product %d shapes x %d metrics/diagrams x %d -x values x %d output types"
            % (len(p["shapes"]), len(p["metrics"]), len(XS), len(p["types"])),
            rule="one execution per command line; non-trivial = the command produced its output; "
                 "distinct = distinct (outcome, command | exit message | crash site)", wall=time.time() - t0))
    if only in (None, "variants"):
        t0 = time.time()
        st = explore.explore(h_variants, mode="full", params=p, repo_root=core.REPO)
        subs.append(core.Sub.from_e1(
            "variants", st, bound="full product %d metrics x %d -x x %d types x %d (-r/-q/-b/-agg) variants"
            % (len(p["metrics"]), len(p["vx"]), len(p["vtypes"]), len(p["variants"])),
            rule="as grid, with one option variant added", wall=time.time() - t0))
    if only in (None, "interactions"):
        t0 = time.time()
        st = explore.explore(h_interactions, mode="full", params=p, repo_root=core.REPO)
        subs.append(core.Sub.from_e1(
            "interactions", st, bound="full product %d metrics x %d shapes x %d -x x %d aggregators x %d threshold/quantile lists (csv)"
            % (len(p["metrics"]), len(p["ishapes"]), len(p["ix"]), len(p["iaggs"]), len(p["irs"])),
            rule="as grid; aggregator x threshold-list x shape interactions", wall=time.time() - t0))
    if only in (None, "edgetypes"):
        t0 = time.time()
        st = explore.explore(h_edgetypes, mode="full", params=p, repo_root=core.REPO)
        subs.append(core.Sub.from_e1(
            "edgetypes", st, bound="full product %d metrics x %d output types x %d threshold variants x %d shapes"
            % (len(p["metrics"]), len(p["etypes"]), len(p["evariants"]), len(p["eshapes"])),
            rule="as grid; thresholds outside the data range make every score NaN", wall=time.time() - t0))
    if only in (None, "degenerate"):
        t0 = time.time()
        st = explore.explore(h_degenerate, mode="full", params=p, repo_root=core.REPO)
        subs.append(core.Sub.from_e1(
            "degenerate", st, bound="full product %d degenerate shapes (one lead time, no valid observation, one time, one location) x %d metrics/diagrams x %d -x x %d output types"
            % (len(p["dshapes"]), len(p["metrics"]), len(p["dx"]), len(p["dtypes"])),
            rule="as grid, on degenerate but well-formed datasets", wall=time.time() - t0))
    if only in (None, "masses"):
        t0 = time.time()
        st = explore.explore(h_masses, mode="full", params=p, repo_root=core.REPO)
        subs.append(core.Sub.from_e1(
            "masses", st, bound="full product 7 metrics (5 PIT-based) x 8 subsetting options x {csv, plot} x 3 -x on files declaring x0 and x1",
            rule="as grid; discrete masses (PIT randomisation) with shortened axes", wall=time.time() - t0))
    if only in (None, "fieldsets"):
        t0 = time.time()
        st = explore.explore(h_fieldsets, mode="full", params=p, repo_root=core.REPO)
        subs.append(core.Sub.from_e1(
            "fieldsets", st, bound="full product 2 partial field sets (deterministic; deterministic + ensemble) x %d metrics x %d -x x %d types x 3 threshold variants"
            % (len(p["metrics"]), 4 if p.get("fs_more") else 2, 3 if p.get("fs_more") else 2),
            rule="as grid; files without probabilistic / quantile columns", wall=time.time() - t0))
    return subs


def replay(rec):
    p = params_for(rec.get("tier", "quick"))
    h = {"masses": h_masses, "fieldsets": h_fieldsets, "grid": h_grid, "variants": h_variants, "interactions": h_interactions, "edgetypes": h_edgetypes}[rec["subcheck"]]
    ctx, _ = explore.replay(h, rec["choices"], rec.get("labels"), params=p, repo_root=core.REPO)
    want = rec["signature"][1]
    return [v.locus for v in ctx.violations if v.locus == want]
