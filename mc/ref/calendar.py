"""Reference calendar: proleptic Gregorian arithmetic on integers (independent of datetime)."""


def days_from_civil(y, m, d):
    """Days since 1970-01-01 of the civil date y-m-d (Howard Hinnant's algorithm)."""
    y -= m <= 2
    era = (y if y >= 0 else y - 399) // 400
    yoe = y - era * 400
    doy = (153 * (m + (-3 if m > 2 else 9)) + 2) // 5 + d - 1
    doe = yoe * 365 + yoe // 4 - yoe // 100 + doy
    return era * 146097 + doe - 719468


def civil_from_days(z):
    z += 719468
    era = (z if z >= 0 else z - 146096) // 146097
    doe = z - era * 146097
    yoe = (doe - doe // 1460 + doe // 36524 - doe // 146096) // 365
    y = yoe + era * 400
    doy = doe - (365 * yoe + yoe // 4 - yoe // 100)
    mp = (5 * doy + 2) // 153
    d = doy - (153 * mp + 2) // 5 + 1
    m = mp + (3 if mp < 10 else -9)
    return (y + (m <= 2), m, d)


def is_leap(y):
    return (y % 4 == 0 and y % 100 != 0) or y % 400 == 0


def date_to_unixtime(date):
    y, m, d = date // 10000, date // 100 % 100, date % 100
    return days_from_civil(y, m, d) * 86400


def unixtime_to_date(ut):
    y, m, d = civil_from_days(int(ut) // 86400)
    return y * 10000 + m * 100 + d


def add_days(date, n):
    y, m, d = date // 10000, date // 100 % 100, date % 100
    y, m, d = civil_from_days(days_from_civil(y, m, d) + n)
    return y * 10000 + m * 100 + d


def weekday(daynum):
    """0 = Monday ... 6 = Sunday for days since 1970-01-01 (a Thursday)."""
    return (daynum + 3) % 7


def split(ut):
    ut = int(ut)
    day = ut // 86400
    sec = ut - day * 86400
    y, m, d = civil_from_days(day)
    return y, m, d, day, sec


# ---- the time buckets of the -x dimensions (label = what the axis reports) -------------------
def bucket_year(ut):
    y, m, d, day, sec = split(ut)
    return days_from_civil(y, 1, 1) * 86400


def bucket_month(ut):
    y, m, d, day, sec = split(ut)
    return days_from_civil(y, m, 1) * 86400


def bucket_week(ut):
    y, m, d, day, sec = split(ut)
    return (day - weekday(day)) * 86400


def bucket_day(ut):
    y, m, d, day, sec = split(ut)
    return day * 86400


def bucket_timeofday(ut):
    y, m, d, day, sec = split(ut)
    return sec / 3600.0


def bucket_dayofmonth(ut):
    return split(ut)[2]


def bucket_monthofyear(ut):
    return split(ut)[1]


def dayofyear_calendar(ut):
    y, m, d, day, sec = split(ut)
    return day - days_from_civil(y, 1, 1) + 1


def dayofyear_leap_aligned(ut):
    """Day of year on a leap-year calendar (Mar 1 = 61 in every year)."""
    y, m, d, day, sec = split(ut)
    return days_from_civil(2000, m, d) - days_from_civil(2000, 1, 1) + 1


def leadtimeday(lt):
    import math
    return int(math.floor(lt / 24.0)) if lt >= 0 else -int(math.floor(-lt / 24.0))


TIME_BUCKETS = {
    "year": bucket_year, "month": bucket_month, "week": bucket_week, "day": bucket_day,
    "timeofday": bucket_timeofday, "dayofmonth": bucket_dayofmonth, "monthofyear": bucket_monthofyear,
    "dayofyear": dayofyear_leap_aligned,
}

MONTH_ABBR = ["Jan", "Feb", "Mar", "Apr", "May", "Jun", "Jul", "Aug", "Sep", "Oct", "Nov", "Dec"]


def fmt_time(ut, axis):
    """The date string -type text/csv prints for a time-like axis value."""
    y, m, d, day, sec = split(ut)
    if axis == "time":
        return "%04d-%02d-%02d %02d:%02d:%02d" % (y, m, d, sec // 3600, sec // 60 % 60, sec % 60)
    if axis == "year":
        return "%04d" % y
    if axis == "month":
        return "%04d/%02d" % (y, m)
    if axis == "day":
        return "%04d/%02d/%02d" % (y, m, d)
    if axis == "week":
        # strftime %U: week number of the year with Sunday as the first day of the week
        jan1 = days_from_civil(y, 1, 1)
        yday = day - jan1            # 0-based
        wday_sun0 = (weekday(day) + 1) % 7
        return "%04d/%02d" % (y, (yday + 7 - wday_sun0) // 7)
    raise ValueError(axis)
