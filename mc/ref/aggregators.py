"""Reference aggregators: plain Python on lists.  NaN in -> NaN out (count excepted)."""
import math

NAN = float("nan")
NAMES = ["mean", "median", "min", "max", "std", "variance", "iqr", "range", "count", "sum", "meanabs",
         "absmean", "change", "abschange"]


def _hasnan(xs):
    return any(isinstance(x, float) and math.isnan(x) for x in xs)


def quantile_linear(xs, q):
    """Hyndman-Fan type 7 (numpy default 'linear')."""
    s = sorted(xs)
    n = len(s)
    h = (n - 1) * q
    lo = int(math.floor(h))
    hi = min(lo + 1, n - 1)
    return s[lo] + (h - lo) * (s[hi] - s[lo])


def quantile_type9(xs, q):
    """Hyndman-Fan type 9 ('normal unbiased')."""
    s = sorted(xs)
    n = len(s)
    h = n * q + 3.0 / 8 + q / 4.0 - 1      # 0-based virtual index
    h = min(max(h, 0.0), n - 1.0)
    lo = int(math.floor(h))
    hi = min(lo + 1, n - 1)
    return s[lo] + (h - lo) * (s[hi] - s[lo])


def aggregate(name, xs):
    """name: one of NAMES or a float quantile level in [0,1].  xs: list of floats (NaN = missing)."""
    xs = [float(x) for x in xs]
    if name == "count":
        return float(sum(1 for x in xs if not math.isnan(x)))
    if len(xs) == 0:
        return NAN
    if name in ("change", "abschange"):
        d = xs[-1] - xs[0]
        return abs(d) if name == "abschange" else d
    if _hasnan(xs):
        return NAN
    n = len(xs)
    if name == "mean":
        return math.fsum(xs) / n
    if name == "sum":
        return math.fsum(xs)
    if name == "median":
        return quantile_linear(xs, 0.5)
    if name == "min":
        return min(xs)
    if name == "max":
        return max(xs)
    if name == "range":
        return max(xs) - min(xs)
    if name in ("std", "variance"):
        m = math.fsum(xs) / n
        var = math.fsum((x - m) ** 2 for x in xs) / n
        return var if name == "variance" else math.sqrt(var)
    if name == "iqr":
        return quantile_linear(xs, 0.75) - quantile_linear(xs, 0.25)
    if name == "meanabs":
        return math.fsum(abs(x) for x in xs) / n
    if name == "absmean":
        return abs(math.fsum(xs) / n)
    if isinstance(name, (int, float)):
        return quantile_linear(xs, float(name))
    raise ValueError(name)
