"""Textbook definitions of the probabilistic scores, plain Python.  UNDEF = None."""
import math
from fractions import Fraction as Fr

UNDEF = None


def _mean(xs):
    return math.fsum(xs) / len(xs)


def prob_bin(p, nbins=10):
    """index of the probability bin [k/10, (k+1)/10), the last one including 1 (decided in exact decimals)"""
    k = int(math.floor(Fr(str(p)) * nbins)) if not isinstance(p, Fr) else int(math.floor(p * nbins))
    return min(k, nbins - 1)


def brier(p, o):
    if not p:
        return UNDEF
    return _mean([(a - b) ** 2 for a, b in zip(p, o)])


def bs_unc(p, o):
    if not o:
        return UNDEF
    ob = _mean(o)
    return _mean([(ob - b) ** 2 for b in o])


def _bins(p, o, binner):
    groups = {}
    for a, b in zip(p, o):
        groups.setdefault(binner(a), []).append((a, b))
    return groups


def bs_rel(p, o, binner=prob_bin):
    if not p:
        return UNDEF
    tot = 0.0
    for k, g in _bins(p, o, binner).items():
        ob = _mean([b for a, b in g])
        tot += math.fsum((a - ob) ** 2 for a, b in g)
    return tot / len(p)


def bs_res(p, o, binner=prob_bin):
    if not p:
        return UNDEF
    obar = _mean(o)
    tot = 0.0
    for k, g in _bins(p, o, binner).items():
        ob = _mean([b for a, b in g])
        tot += len(g) * (ob - obar) ** 2
    return tot / len(p)


def _unc_zero(o):
    return len(set(o)) <= 1


def bss(p, o):
    if not p or _unc_zero(o):
        return UNDEF
    u = bs_unc(p, o)
    return (u - brier(p, o)) / u


def bss_rel(p, o, binner=prob_bin):
    if not p or _unc_zero(o):
        return UNDEF
    return bs_rel(p, o, binner) / bs_unc(p, o)


def bss_res(p, o, binner=prob_bin):
    if not p or _unc_zero(o):
        return UNDEF
    return bs_res(p, o, binner) / bs_unc(p, o)


def ign0(p, o):
    if not p:
        return UNDEF
    tot = []
    for a, b in zip(p, o):
        q = a if b == 1 else 1 - a
        if q <= 0:
            return float("inf")
        tot.append(-math.log(q, 2))
    return _mean(tot)


def spherical(p, o):
    if not p:
        return UNDEF
    out = []
    for a, b in zip(p, o):
        d = math.sqrt(a ** 2 + (1 - a) ** 2)
        out.append((a if b == 1 else 1 - a) / d)
    return _mean(out)


def marginal_ratio(p, o):
    if not p:
        return UNDEF
    mp = _mean(p)
    if math.fsum(p) == 0:
        return UNDEF
    return _mean(o) / mp


def pinball(obs, q, tau):
    if not obs:
        return UNDEF
    return _mean([(o - x) * (tau - (1 if o - x < 0 else 0)) for o, x in zip(obs, q)])


def norm_ppf(p):
    """inverse of the standard normal CDF by bisection on math.erf (independent of scipy)"""
    if p <= 0:
        return float("-inf")
    if p >= 1:
        return float("inf")
    lo, hi = -40.0, 40.0
    for _ in range(200):
        mid = (lo + hi) / 2
        if 0.5 * (1 + math.erf(mid / math.sqrt(2))) < p:
            lo = mid
        else:
            hi = mid
    return (lo + hi) / 2


def pit_hist(pit, nbins=10):
    """counts per bin [k/10,(k+1)/10), the last including 1"""
    n = [0] * nbins
    for x in pit:
        if 0 <= x <= 1:
            n[prob_bin(x, nbins)] += 1
    return n


def pit_dev(pit, nbins=10):
    if not pit:
        return UNDEF
    n = pit_hist(pit, nbins)
    tot = float(sum(n))
    if tot == 0:
        return UNDEF
    fr = [x / tot for x in n]
    D = math.sqrt(math.fsum((x - 1.0 / nbins) ** 2 for x in fr) / nbins)
    D0 = math.sqrt((1 - 1.0 / nbins) / (len(pit) * nbins))
    return D / D0


def pit_slope(pit, nbins=10):
    if not pit:
        return UNDEF
    n = pit_hist(pit, nbins)
    tot = float(sum(n))
    if tot == 0:
        return UNDEF
    fr = [x / tot for x in n]
    dx = 1.0 / nbins
    return _mean([(fr[i + 1] - fr[i]) / dx for i in range(nbins - 1)])


def pit_shape(pit, nbins=10):
    if not pit:
        return UNDEF
    n = pit_hist(pit, nbins)
    tot = float(sum(n))
    if tot == 0:
        return UNDEF
    fr = [x / tot for x in n]
    dx = 1.0 / nbins
    d = [(fr[i + 1] - fr[i]) / dx for i in range(nbins - 1)]
    return _mean([(d[i + 1] - d[i]) / dx for i in range(nbins - 2)])
