"""Textbook 2x2 contingency-table scores.  a = hits, b = false alarms, c = misses, d = correct rejections.
Ratios of counts are formed with fractions (exact); logs with math.log.  UNDEF (None) where undefined."""
import math
from fractions import Fraction as Fr

UNDEF = None


def _div(n, d):
    if d == 0:
        return UNDEF
    return Fr(n) / Fr(d)


def score(name, a, b, c, d):
    a, b, c, d = Fr(a), Fr(b), Fr(c), Fr(d)
    n = a + b + c + d
    r = _score(name, a, b, c, d, n)
    if r is UNDEF:
        return UNDEF
    return float(r)


def _log(x):
    return math.log(float(x))


def _score(name, a, b, c, d, n):
    if name == "a":
        return _div(a, n)
    if name == "b":
        return _div(b, n)
    if name == "c":
        return _div(c, n)
    if name == "d":
        return _div(d, n)
    if name == "n":
        return n
    if name == "pc":
        return _div(a + d, n)
    if name == "fcstrate":
        return _div(a + b, n)
    if name == "baserate":
        return _div(a + c, n)
    if name == "threat":
        return _div(a, a + b + c)
    if name == "ets":
        if n == 0:
            return UNDEF
        ar = (a + b) * (a + c) / n
        return _div(a - ar, a + b + c - ar)
    if name == "hit":
        return _div(a, a + c)
    if name == "miss":
        return _div(c, a + c)
    if name == "fa":
        return _div(b, b + d)
    if name == "far":
        return _div(b, a + b)
    if name == "biasfreq":
        return _div(a + b, a + c)
    if name == "hss":
        return _div(2 * (a * d - b * c), (a + c) * (c + d) + (a + b) * (b + d))
    if name == "kss":
        return _div(a * d - b * c, (a + c) * (b + d))
    if name == "or":
        return _div(a * d, b * c)
    if name == "lor":
        if a * d == 0 or b * c == 0:
            return UNDEF
        return _log(a * d / (b * c))
    if name == "yulesq":
        return _div(a * d - b * c, a * d + b * c)
    if name == "dscore":
        return _div(a * d + Fr(1, 2) * (a * b + c * d), (a + c) * (b + d))
    if name in ("edi", "sedi"):
        if b + d == 0 or a + c == 0:
            return UNDEF
        F = b / (b + d)
        H = a / (a + c)
        if name == "edi":
            if H == 0 or F == 0:
                return UNDEF
            den = _log(H) + _log(F)
            if den == 0:
                return UNDEF
            return (_log(F) - _log(H)) / den
        if F in (0, 1) or H in (0, 1):
            return UNDEF
        den = _log(F) + _log(H) + _log(1 - F) + _log(1 - H)
        if den == 0:
            return UNDEF
        return (_log(F) - _log(H) - _log(1 - F) + _log(1 - H)) / den
    if name in ("eds", "seds"):
        if a + c == 0 or n == 0:
            return UNDEF
        H = a / (a + c)
        p = (a + c) / n
        q = (a + b) / n
        if H == 0 or p == 0:
            return UNDEF
        den = _log(p) + _log(H)
        if den == 0:
            return UNDEF
        if name == "eds":
            return (_log(p) - _log(H)) / den
        if q == 0:
            return UNDEF
        return (_log(q) - _log(H)) / den
    raise ValueError(name)


METRICS = ["a", "b", "c", "d", "n", "pc", "fcstrate", "baserate", "threat", "ets", "hit", "miss", "fa", "far", "biasfreq", "hss",
           "kss", "or", "lor", "yulesq", "dscore", "edi", "sedi", "eds", "seds"]
# value of a perfect forecast (b = c = 0) where the score is defined
PERFECT = {"ets": 1, "threat": 1, "pc": 1, "hit": 1, "miss": 0, "fa": 0, "far": 0, "biasfreq": 1, "hss": 1, "kss": 1, "yulesq": 1,
           "dscore": 1, "edi": 1, "sedi": 1, "eds": 1, "seds": 1}
