"""Reference value of a metric on one slice of a reference dataset (glue between dataset.py and the metric definitions)."""
import math

from . import metrics_det as MD
from . import metrics_cat as MC
from . import metrics_prob as MP
from . import aggregators as AG

NAN = float("nan")


def in_interval(x, iv):
    lo, hi, loe, hie = iv
    above = x > lo or (loe and x == lo) or lo == float("-inf")
    below = x < hi or (hie and x == hi) or hi == float("inf")
    return above and below


def intervals(bin_type, thresholds):
    """the documented events for a bin type and threshold list, as (lo, hi, lo_closed, hi_closed)"""
    inf = float("inf")
    out = []
    if thresholds is None:
        return [(-inf, inf, True, True)]
    if "within" in bin_type:
        for i in range(len(thresholds) - 1):
            out.append((thresholds[i], thresholds[i + 1], bin_type.startswith("="), bin_type.endswith("=")))
    elif bin_type.startswith("below"):
        out = [(-inf, t, False, bin_type.endswith("=")) for t in thresholds]
    else:
        out = [(t, inf, bin_type.endswith("="), False) for t in thresholds]
    return out


def center(iv):
    lo, hi = iv[0], iv[1]
    if math.isinf(lo) and math.isinf(hi):
        return 0
    if math.isinf(lo):
        return hi
    if math.isinf(hi):
        return lo
    return (lo + hi) / 2.0


def event_p(ref, i, ax, k, iv):
    lo, hi = iv[0], iv[1]
    roles = ["obs"]
    if not math.isinf(lo):
        roles.append(("p", lo))
    if not math.isinf(hi):
        roles.append(("p", hi))
    out = []
    for r in ref.request(roles, i, ax, k):
        idx = 1
        plo, phi = 0.0, 1.0
        if not math.isinf(lo):
            plo = r[idx]
            idx += 1
        if not math.isinf(hi):
            phi = r[idx]
        out.append((1.0 if in_interval(r[0], iv) else 0.0, phi - plo))
    return out


PROB = {"bs": MP.brier, "bsrel": MP.bs_rel, "bsres": MP.bs_res, "bsunc": MP.bs_unc, "bss": MP.bss, "bssrel": MP.bss_rel,
        "bssres": MP.bss_res, "ign0": MP.ign0, "spherical": MP.spherical, "marginalratio": MP.marginal_ratio}


def score(ref, metric, i, ax, k, iv=None, aggregator="mean", axis_filter=None):
    """reference score of `metric` for input i on slice k of axis ax.  iv: the event / quantile interval.
    axis_filter: ('obs'|'fcst', interval) keeps the pairs whose obs / fcst lies in the interval (-x obs / -x fcst).
    Returns a float, or None where undefined / no valid case."""
    if metric in ("obs", "fcst"):
        roles = [metric]
        if axis_filter is not None and axis_filter[0] != metric:
            roles.append(axis_filter[0])
        rows = ref.request(roles, i, ax, k)
        if axis_filter is not None:
            rows = [r for r in rows if in_interval(r[-1] if len(roles) > 1 else r[0], axis_filter[1])]
        vals = [r[0] for r in rows]
        if not vals:
            return 0.0 if aggregator == "count" else None
        return AG.aggregate(aggregator, vals)
    if metric in MD.DETERMINISTIC or metric == "within":
        pairs = ref.request(["obs", "fcst"], i, ax, k)
        if axis_filter is not None:
            j = 0 if axis_filter[0] == "obs" else 1
            pairs = [p for p in pairs if in_interval(p[j], axis_filter[1])]
        if not pairs:
            return None
        return MD.metric(metric, [p[0] for p in pairs], [p[1] for p in pairs], aggregator, interval=iv)
    if metric in MC.METRICS:
        pairs = ref.request(["obs", "fcst"], i, ax, k)
        if not pairs:
            return None
        a = b = c = d = 0
        for o, f in pairs:
            eo, ef = in_interval(o, iv), in_interval(f, iv)
            a += ef and eo
            b += ef and not eo
            c += (not ef) and eo
            d += (not ef) and (not eo)
        return MC.score(metric, a, b, c, d)
    if metric in PROB:
        rows = event_p(ref, i, ax, k, iv)
        if not rows:
            return None
        return PROB[metric]([r[1] for r in rows], [r[0] for r in rows])
    if metric == "quantilescore":
        level = iv[1] if math.isinf(iv[0]) else iv[0]
        rows = ref.request(["obs", ("q", level)], i, ax, k)
        return MP.pinball([r[0] for r in rows], [r[1] for r in rows], level)
    if metric == "pit":
        rows = ref.request(["pit"], i, ax, k)
        return AG.aggregate(aggregator, [r[0] for r in rows]) if rows else None
    raise ValueError(metric)
