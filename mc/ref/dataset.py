"""Reference dataset semantics (DESIGN.md appendix B): pure Python over gen.AInput objects.

A request names *roles*: 'obs', 'fcst', 'pit', ('p', threshold), ('q', level), ('e', member),
('o', name).  The answer is the list of per-case value tuples of the valid cases.
"""
import math
import struct

from . import calendar as cal
from . import aggregators as agg
from ..gen import is_missing

TIME_AXES = ["year", "month", "week", "day", "timeofday", "dayofyear", "dayofmonth", "monthofyear"]
LOC_AXES = ["location", "lat", "lon", "elev"]
POOL_AXES = ["no", "threshold", "obs", "fcst"]


class RefError(Exception):
    """The documentation says the program stops with an error here."""


def f32(x):
    if x is None:
        return None
    try:
        return struct.unpack("f", struct.pack("f", x))[0]
    except OverflowError:
        return float("inf") if x > 0 else float("-inf")


def finite(v):
    return v is not None and not math.isnan(v) and not math.isinf(v)


def isclose(a, b):
    # numpy.isclose defaults
    return abs(a - b) <= 1e-8 + 1e-5 * abs(b)


class RefData(object):
    def __init__(self, inputs, clim=None, clim_type="subtract", times=None, dates=None, tods=None,
                 leadtimes=None, locations=None, locations_x=None, lat_range=None, lon_range=None,
                 elev_range=None, obs_range=None, obs_field="obs", fcst_field="fcst",
                 agg_len=None, agg_axis="leadtime", agg_method="mean"):
        self.inputs = list(inputs)
        self.clim = clim
        self.clim_type = clim_type
        self.files = self.inputs + ([clim] if clim is not None else [])
        self.n = len(self.inputs)
        self.obs_range = obs_range
        self.obs_field = obs_field
        self.fcst_field = fcst_field
        self.agg_len = agg_len
        self.agg_axis = agg_axis
        self.agg_method = agg_method
        F0 = self.files[0]
        # ---- step 1: location pre-selection on the first file's metadata
        f0ids = []
        for l in F0.locs:
            if l[0] not in f0ids:
                f0ids.append(l[0])
        meta = {}
        for l in F0.locs:
            meta.setdefault(l[0], l)
        if lat_range is not None or lon_range is not None:
            la = lat_range if lat_range is not None else (-90, 90)
            lo = lon_range if lon_range is not None else (-180, 180)
            inside = [i for i in f0ids if la[0] <= meta[i][1] <= la[1] and lo[0] <= meta[i][2] <= lo[1]]
            if locations is not None:
                use = [i for i in locations if i in inside]
            else:
                use = inside
            if not use:
                raise RefError("no locations within lat/lon range")
        elif locations is not None:
            use = list(locations)
        else:
            use = list(f0ids)
        if elev_range is not None:
            ok = [i for i in f0ids if elev_range[0] <= meta[i][3] <= elev_range[1]]
            use = [i for i in use if i in ok]
            if not use:
                raise RefError("no locations within elevation range")
        if locations_x is not None:
            use = [i for i in use if i not in locations_x]
        # ---- step 2: intersections
        def common(getter, user):
            s = None if user is None else set(user)
            for F in self.files:
                vals = set(v for v in getter(F) if not (isinstance(v, float) and math.isnan(v)))
                s = vals if s is None else (s & vals)
            return sorted(s)
        self.T = common(lambda F: F.times, times)
        self.L = common(lambda F: F.leads, leadtimes)
        self.S = common(lambda F: [l[0] for l in F.locs], use)
        if not self.T:
            raise RefError("no valid times")
        if not self.L:
            raise RefError("no valid leadtimes")
        if not self.S:
            raise RefError("no valid locations")
        # ---- step 3: -d / -tod
        if dates is not None:
            ds = set(int(d) for d in dates)
            self.T = [t for t in self.T if cal.unixtime_to_date(t) in ds]
        if tods is not None:
            hs = set(tods)
            self.T = [t for t in self.T if (int(t) % 86400) / 3600.0 in hs]
        self.locmeta = [meta[s] for s in self.S]
        self._prop = {}
        self._raw = {}

    # ---- dimensions ----------------------------------------------------------------------------
    def cases(self):
        return [(t, l, s) for t in self.T for l in self.L for s in self.S]

    def axis_values(self, axis):
        if axis == "time":
            return list(self.T)
        if axis in TIME_AXES:
            return sorted(set(cal.TIME_BUCKETS[axis](t) for t in self.T))
        if axis == "leadtime":
            return list(self.L)
        if axis == "leadtimeday":
            return sorted(set(cal.leadtimeday(l) for l in self.L))
        if axis in LOC_AXES:
            k = LOC_AXES.index(axis)
            return [m[k] for m in self.locmeta]
        return [0]

    def slice_cases(self, axis, index):
        if axis in POOL_AXES or axis == "all" or axis is None:
            return self.cases()
        if axis == "time":
            t = self.T[index]
            return [(t, l, s) for l in self.L for s in self.S]
        if axis in TIME_AXES:
            b = self.axis_values(axis)[index]
            f = cal.TIME_BUCKETS[axis]
            return [(t, l, s) for t in self.T if f(t) == b for l in self.L for s in self.S]
        if axis == "leadtime":
            l = self.L[index]
            return [(t, l, s) for t in self.T for s in self.S]
        if axis == "leadtimeday":
            b = self.axis_values(axis)[index]
            return [(t, l, s) for t in self.T for l in self.L if cal.leadtimeday(l) == b for s in self.S]
        if axis in LOC_AXES:
            s = self.S[index]
            return [(t, l, s) for t in self.T for l in self.L]
        raise ValueError(axis)

    # ---- values ----------------------------------------------------------------------------------
    def _series(self, F, name, pos):
        """value of a stored column at a position after -T pre-aggregation"""
        if self.agg_len is None:
            return F.get(name, pos)
        ti, li, si = pos
        if self.agg_axis == "leadtime":
            x = F.leads[li]
            idx = [j for j in range(len(F.leads)) if x - self.agg_len < F.leads[j] <= x]
            vals = [F.get(name, (ti, j, si)) for j in idx]
        else:
            x = F.times[ti]
            idx = [j for j in range(len(F.times)) if x - self.agg_len * 3600 < F.times[j] <= x]
            vals = [F.get(name, (j, li, si)) for j in idx]
        vals = [float("nan") if v is None else v for v in vals]
        r = agg.aggregate(self.agg_method, vals)
        if not finite(r):
            return None if (r is None or math.isnan(r)) else r
        return f32(r)

    def _resolve(self, role):
        if role == "obs":
            return self.obs_field
        if role == "fcst":
            return self.fcst_field
        return role

    def _file_value(self, fi, role, case):
        """value stored by file fi for the (resolved) role at the coordinates, before propagation"""
        key = (fi, role, case)
        if key in self._raw:
            return self._raw[key]
        F = self.files[fi]
        t, l, s = case
        pos = (F.first_index("t", t), F.first_index("l", l), F.first_index("s", s))
        v = self._compute_file_value(F, fi, role, pos)
        self._raw[key] = v
        return v

    def _compute_file_value(self, F, fi, role, pos):
        if isinstance(role, str):
            name = role
            if name == "obs" and not F.has("obs"):
                raise KeyError("obs")
            if not F.has(name):
                raise RefError("%s does not contain %s" % (F.name, name))
            v = self._series(F, name, pos)
            return v
        kind, arg = role
        if kind == "o":
            if not F.has(arg):
                raise RefError("%s does not contain %s" % (F.name, arg))
            return self._series(F, arg, pos)
        if kind == "e":
            name = "e%d" % arg
            if not F.has(name):
                raise RefError("no member")
            return self._series(F, name, pos)
        if kind == "p":
            stored = [n for n in F.fields if n[0] == "p" and n != "pit" and _isnum(n[1:]) and isclose(float(n[1:]), arg)]
            if stored and self.agg_len is None:
                return F.get(stored[0], pos)
            mem = F.members()
            if not mem:
                raise RefError("%s does not contain threshold %g" % (F.name, arg))
            vals = [self._series(F, "e%d" % m, pos) for m in mem]
            vals = [v for v in vals if v is not None and not math.isnan(v)]
            if not vals:
                return None
            return f32(sum(1 for v in vals if v <= arg) / float(len(vals)))
        if kind == "q":
            stored = [n for n in F.fields if n[0] == "q" and _isnum(n[1:]) and isclose(float(n[1:]), arg)]
            if stored and self.agg_len is None:
                return F.get(stored[0], pos)
            mem = F.members()
            if not mem:
                raise RefError("%s does not contain quantile %g" % (F.name, arg))
            vals = [self._series(F, "e%d" % m, pos) for m in mem]
            if any(v is None or math.isnan(v) for v in vals):
                return None
            return agg.quantile_type9(vals, arg)
        raise ValueError(role)

    def _obs_source(self, fi):
        """index of the file whose observations file fi uses"""
        name = self.obs_field
        if self.files[fi].has(name):
            return fi
        for j in range(len(self.files)):
            if self.files[j].has(name):
                return j
        raise RefError("no files have observations")

    def prop(self, fi, role, case):
        """value of role for file fi at case after observation sharing and missing-value propagation"""
        role_r = self._resolve(role)
        key = (role == "obs", _rk(role_r), case)
        if key not in self._prop:
            vals = []
            for j in range(len(self.files)):
                src = self._obs_source(j) if role == "obs" else j
                vals.append(self._file_value(src, role_r, case))
            if any(is_missing(v) or (v is not None and math.isnan(v)) for v in vals):
                vals = [None] * len(vals)
            self._prop[key] = vals
        return self._prop[key][fi]

    def value(self, fi, role, case, with_clim=True):
        v = self.prop(fi, role, case)
        if v is None:
            return None
        if role == "obs" and self.obs_range is not None:
            if v < self.obs_range[0] or v > self.obs_range[1]:
                return None
        if with_clim and self.clim is not None and role in ("obs", "fcst"):
            k = self.prop(len(self.files) - 1, "fcst", case)
            if k is None:
                return None
            if self.clim_type == "subtract":
                v = v - k
            else:
                if k == 0:
                    return None
                v = v / k
        return v if finite(v) else None

    def request(self, roles, fi, axis="no", index=None):
        """list of value tuples of the valid cases of the slice (in case order)"""
        key = (tuple(_rk(r) for r in roles), fi, axis, index)
        memo = self.__dict__.setdefault("_memo", {})
        if key in memo:
            return memo[key]
        rows = []
        for case in self.slice_cases(axis, index):
            vals = [self.value(fi, r, case) for r in roles]
            if all(v is not None for v in vals):
                rows.append(tuple(vals))
        memo[key] = rows
        return rows

    def request_all(self, roles, fi):
        """dict case -> tuple (or None where invalid) for axis All"""
        out = {}
        for case in self.cases():
            vals = [self.value(fi, r, case) for r in roles]
            out[case] = tuple(vals) if all(v is not None for v in vals) else None
        return out


def _isnum(s):
    try:
        float(s)
        return True
    except ValueError:
        return False


def _rk(role):
    return role if isinstance(role, str) else tuple(role)


# ------------------------------------------------------------------------------------------------
# mapping roles / axes onto verif objects (used by the harnesses)
# ------------------------------------------------------------------------------------------------
def to_field(role):
    import verif.field
    if role == "obs":
        return verif.field.Obs()
    if role == "fcst":
        return verif.field.Fcst()
    if role == "pit":
        return verif.field.Pit()
    kind, arg = role
    if kind == "p":
        return verif.field.Threshold(arg)
    if kind == "q":
        return verif.field.Quantile(arg)
    if kind == "e":
        return verif.field.Ensemble(arg)
    return verif.field.Other(arg)


def to_axis(name):
    import verif.axis
    return verif.axis.get(name)


def impl_rows(result, single=False):
    """Normalise a sliced get_scores answer into a list of value tuples ([] for the all-NaN marker)."""
    import numpy as np
    arrs = [result] if single else list(result)
    arrs = [np.asarray(a, dtype=float).reshape(-1) for a in arrs]
    n = arrs[0].shape[0]
    if any(a.shape[0] != n for a in arrs):
        return "ragged:%r" % ([a.shape for a in arrs],)
    if n == 1 and all(np.isnan(a[0]) for a in arrs):
        return []
    return [tuple(float(a[i]) for a in arrs) for i in range(n)]


def rows_equal(exp, got, rtol=2e-6):
    """multiset equality of lists of value tuples with a relative tolerance"""
    if isinstance(got, str):
        return False
    if len(exp) != len(got):
        return False
    a = sorted(exp)
    b = sorted(got)
    for x, y in zip(a, b):
        for u, v in zip(x, y):
            if not (u == v or abs(u - v) <= rtol * max(1.0, abs(u), abs(v))):
                # sorting with tolerance can mis-pair only when values nearly tie; fall back to matching
                return _match(exp, got, rtol)
    return True


def _match(exp, got, rtol):
    rest = list(got)
    for x in exp:
        for i, y in enumerate(rest):
            if all(u == v or abs(u - v) <= rtol * max(1.0, abs(u), abs(v)) for u, v in zip(x, y)):
                del rest[i]
                break
        else:
            return False
    return not rest
