"""Textbook definitions of the deterministic scores: plain Python (math, fractions).

Every function takes the lists of valid (obs, fcst) pairs and returns a float, or UNDEF (None) where the
definition is undefined (no pairs, zero variance, zero denominator, logarithm of a non-positive number).
Zero tests are done exactly with fractions, so that 'undefined' does not depend on rounding."""
import math
from fractions import Fraction

from . import aggregators as agg

UNDEF = None


def _fr(xs):
    return [Fraction(x) for x in xs]


def _mean(xs):
    return math.fsum(xs) / len(xs)


def _var_is_zero(xs):
    f = _fr(xs)
    m = sum(f) / len(f)
    return all(x == m for x in f)


def _ranks(xs):
    """average ranks (1-based)"""
    order = sorted(range(len(xs)), key=lambda i: xs[i])
    r = [0.0] * len(xs)
    i = 0
    while i < len(order):
        j = i
        while j + 1 < len(order) and xs[order[j + 1]] == xs[order[i]]:
            j += 1
        avg = (i + j) / 2.0 + 1
        for k in range(i, j + 1):
            r[order[k]] = avg
        i = j + 1
    return r


def pearson(x, y):
    n = len(x)
    if n <= 1 or _var_is_zero(x) or _var_is_zero(y):
        return UNDEF
    mx, my = _mean(x), _mean(y)
    sxy = math.fsum((a - mx) * (b - my) for a, b in zip(x, y))
    sxx = math.fsum((a - mx) ** 2 for a in x)
    syy = math.fsum((b - my) ** 2 for b in y)
    return sxy / math.sqrt(sxx * syy)


def spearman(x, y):
    if len(x) <= 1:
        return UNDEF
    return pearson(_ranks(x), _ranks(y))


def kendall_tau_b(x, y):
    n = len(x)
    if n <= 1:
        return UNDEF
    conc = disc = tx = ty = 0
    for i in range(n):
        for j in range(i + 1, n):
            dx = (x[i] > x[j]) - (x[i] < x[j])
            dy = (y[i] > y[j]) - (y[i] < y[j])
            if dx == 0 and dy == 0:
                continue
            if dx == 0:
                tx += 1
            elif dy == 0:
                ty += 1
            elif dx == dy:
                conc += 1
            else:
                disc += 1
    d = math.sqrt((conc + disc + tx) * (conc + disc + ty))
    if d == 0:
        return UNDEF
    return (conc - disc) / d


def ecdf(sample, x, right=True):
    if right:
        return sum(1 for s in sample if s <= x) / float(len(sample))
    return sum(1 for s in sample if s < x) / float(len(sample))


def metric(name, o, f, aggregator="mean", interval=None):
    """o, f: equally long lists of finite floats (the valid pairs)."""
    n = len(o)
    if n == 0:
        return UNDEF
    A = lambda xs: agg.aggregate(aggregator, xs)   # noqa
    if name == "mae":
        return A([abs(a - b) for a, b in zip(o, f)])
    if name == "bias":
        return A([b - a for a, b in zip(o, f)])
    if name == "rmse":
        v = A([(a - b) ** 2 for a, b in zip(o, f)])
        return math.sqrt(v) if v >= 0 else UNDEF
    if name == "cmae":
        v = A([abs(a ** 3 - b ** 3) for a, b in zip(o, f)])
        return v ** (1.0 / 3) if v >= 0 else UNDEF
    if name == "rmsf":
        if any(a == 0 for a in o) or any(b / a <= 0 for a, b in zip(o, f)):
            return UNDEF
        v = A([math.log(b / a) ** 2 for a, b in zip(o, f)])
        return math.exp(math.sqrt(v)) if v >= 0 else UNDEF
    if name == "diff":
        return A(f) - A(o)
    if name == "ratio":
        d = A(o)
        if d == 0:
            return UNDEF
        return A(f) / d
    if name == "obs":
        return A(o)
    if name == "fcst":
        return A(f)
    if name == "stderror":
        e = [a - b for a, b in zip(o, f)]
        m = _mean(e)
        return math.sqrt(_mean([(x - m) ** 2 for x in e]))
    if name == "obsstddev":
        m = _mean(o)
        return math.sqrt(_mean([(x - m) ** 2 for x in o]))
    if name == "fcststddev":
        m = _mean(f)
        return math.sqrt(_mean([(x - m) ** 2 for x in f]))
    if name == "corr":
        return pearson(o, f)
    if name == "rankcorr":
        return spearman(o, f)
    if name == "kendallcorr":
        return kendall_tau_b(o, f)
    if name in ("nsec", "nnsec"):
        if _var_is_zero(o):
            return UNDEF
        mo = _mean(o)
        nse = 1 - math.fsum((b - a) ** 2 for a, b in zip(o, f)) / math.fsum((a - mo) ** 2 for a in o)
        return nse if name == "nsec" else 1.0 / (2 - nse)
    if name == "kge":
        if _var_is_zero(o) or _var_is_zero(f) or sum(_fr(o)) == 0:
            return UNDEF
        r = pearson(o, f)
        mo, mf = _mean(o), _mean(f)
        so = math.sqrt(_mean([(x - mo) ** 2 for x in o]))
        sf = math.sqrt(_mean([(x - mf) ** 2 for x in f]))
        return 1 - math.sqrt((r - 1) ** 2 + (mf / mo - 1) ** 2 + (sf / so - 1) ** 2)
    if name == "dmb":
        if sum(_fr(f)) == 0:
            return UNDEF
        return _mean(o) / _mean(f)
    if name == "mbias":
        if sum(_fr(o)) == 0:
            return UNDEF
        return _mean(f) / _mean(o)
    if name == "ef":
        return sum(1 for a, b in zip(o, f) if b > a) / float(n)
    if name == "derror":
        return _mean([abs(a - b) for a, b in zip(sorted(o), sorted(f))])
    if name == "leps":
        # |CDF_obs(fcst) - CDF_obs(obs)| with the empirical distribution of the observations
        return _mean([abs(ecdf(o, b) - ecdf(o, a)) for a, b in zip(o, f)])
    if name == "leps-left":
        return _mean([abs(ecdf(o, b, False) - ecdf(o, a, False)) for a, b in zip(o, f)])
    if name == "alphaindex":
        # variance of the error relative to the sum of the variances (0 = perfect, range 0..2)
        mo, mf = _mean(o), _mean(f)
        if _var_is_zero(o) and _var_is_zero(f):
            return UNDEF
        num = math.fsum((b - a - mf + mo) ** 2 for a, b in zip(o, f))
        den = math.fsum((b - mf) ** 2 + (a - mo) ** 2 for a, b in zip(o, f))
        return num / den
    if name == "within":
        lo, hi, lo_eq, hi_eq = interval
        cnt = 0
        for a, b in zip(o, f):
            d = abs(a - b)
            above = d > lo or (lo_eq and d == lo) or lo == float("-inf")
            below = d < hi or (hi_eq and d == hi) or hi == float("inf")
            cnt += above and below
        return 100.0 * cnt / n
    raise ValueError(name)


DETERMINISTIC = ["mae", "bias", "rmse", "stderror", "corr", "rankcorr", "kendallcorr", "nsec", "nnsec", "kge", "cmae", "rmsf",
                 "dmb", "mbias", "ef", "derror", "leps", "alphaindex", "diff", "ratio", "obsstddev", "fcststddev"]
AGG_AWARE = ["mae", "bias", "rmse", "cmae", "rmsf", "diff", "ratio"]
# value attained by a forecast identical to the observations (where defined)
PERFECT = {"mae": 0, "rmse": 0, "stderror": 0, "cmae": 0, "derror": 0, "leps": 0, "alphaindex": 0, "corr": 1, "rankcorr": 1,
           "kendallcorr": 1, "nsec": 1, "nnsec": 1, "kge": 1, "bias": 0, "diff": 0, "ratio": 1, "dmb": 1, "mbias": 1, "rmsf": 1}
ORIENTATION = {"mae": -1, "rmse": -1, "stderror": -1, "cmae": -1, "derror": -1, "leps": -1, "alphaindex": -1, "corr": 1,
               "rankcorr": 1, "kendallcorr": 1, "nsec": 1, "nnsec": 1, "kge": 1}
