"""Standard small datasets (deterministic + probabilistic + ensemble in one file) used by several checks."""
from . import gen

DAY = 86400
# 2012-02-28 00:00 UTC = 1330387200 ; the times straddle a leap day and a month boundary
T_FEB28_2012 = 1330387200


def _clip01(x):
    return 0.0 if x < 0 else (1.0 if x > 1 else x)


def _r8(x):
    return round(x * 8) / 8.0


def full_input(name, times, leads, locs, k=0, seed=0, missing=(), with_obs=True, fields="all",
               thresholds=(1.0, 2.0, 3.0), quantiles=(0.1, 0.5, 0.9), members=3, variable="Precip", units="mm"):
    """One input with obs fcst pit p* q* e* crps, smooth-ish deterministic values.
    k distinguishes inputs (different forecast errors).  missing: iterable of (field, pos)."""
    scale = [0.5, 0.25, 1.0, 0.5][seed % 4]
    f = {}
    names = []
    if with_obs:
        names.append("obs")
    names += ["fcst", "pit"] + ["p%s" % gen.fmt_num(t) for t in thresholds] + \
        ["q%s" % gen.fmt_num(q) for q in quantiles] + ["e%d" % m for m in range(members)] + ["crps"]
    if fields != "all":
        names = [n for n in names if n in fields]
    for n in names:
        f[n] = {}
    T, L, S = len(times), len(leads), len(locs)
    for ti in range(T):
        for li in range(L):
            for si in range(S):
                pos = (ti, li, si)
                # key by coordinate VALUES so that differently ordered inputs agree on observations
                tv = int(times[ti] // 3600) % 97
                lv = int(leads[li]) % 89
                sv = int(locs[si][0]) % 83
                h = (3 * tv + 5 * lv + 7 * sv)
                obs = (h % 7) * scale
                err = (((tv + 2 * lv + 3 * sv + k) % 5) - 2) * scale * (1 + k % 2)
                fc = obs + err
                spread = scale * (1 + (tv + lv + sv + k) % 3)
                vals = {"obs": obs, "fcst": fc}
                for t in thresholds:
                    vals["p%s" % gen.fmt_num(t)] = _r8(_clip01((t - fc) / (4 * spread) + 0.5))
                for q in quantiles:
                    vals["q%s" % gen.fmt_num(q)] = fc + (q - 0.5) * 4 * spread
                for m in range(members):
                    vals["e%d" % m] = fc + (m - (members - 1) / 2.0) * spread
                vals["pit"] = _r8(_clip01((obs - fc) / (4 * spread) + 0.5))
                vals["crps"] = abs(err) * 0.5 + 0.125
                for n in names:
                    f[n][pos] = vals[n]
    for (n, pos) in missing:
        if n in f and pos in f[n]:
            del f[n][pos]
    return gen.AInput(name, times, leads, locs, f, variable=variable, units=units)


def shape(name, seed=0):
    """Returns list of AInputs for a named dataset shape."""
    locs3 = gen.std_locs(3, seed)
    t3 = [T_FEB28_2012 + i * DAY for i in range(3)]            # Feb 28, Feb 29, Mar 1 2012
    l3 = [0.0, 12.0, 24.0]
    if name == "regular":
        A = full_input("A.txt", t3, l3, locs3, k=0, seed=seed, missing=[("fcst", (0, 1, 1)), ("obs", (2, 0, 2))])
        B = full_input("B.txt", t3, l3, locs3, k=1, seed=seed, missing=[("fcst", (1, 2, 0)), ("pit", (0, 0, 0)),
                                                                         ("p2", (1, 1, 1)), ("q0.5", (2, 2, 2)), ("e1", (0, 2, 1))])
        return [A, B]
    if name == "single_time":
        A = full_input("A.txt", t3[:1], l3, locs3, k=0, seed=seed)
        B = full_input("B.txt", t3[:1], l3, locs3, k=1, seed=seed, missing=[("fcst", (0, 1, 1))])
        return [A, B]
    if name == "single_location":
        A = full_input("A.txt", t3, l3, locs3[:1], k=0, seed=seed)
        B = full_input("B.txt", t3, l3, locs3[:1], k=1, seed=seed, missing=[("fcst", (1, 1, 0))])
        return [A, B]
    if name == "single_leadtime":
        A = full_input("A.txt", t3, l3[:1], locs3, k=0, seed=seed)
        B = full_input("B.txt", t3, l3[:1], locs3, k=1, seed=seed, missing=[("fcst", (1, 0, 1))])
        return [A, B]
    if name == "no_valid_pair":
        # every observation of the first file is missing: no case is valid for any score that uses observations
        A = full_input("A.txt", t3, l3, locs3, k=0, seed=seed, missing=[("obs", (ti, li, si)) for ti in range(3) for li in range(3) for si in range(3)])
        B = full_input("B.txt", t3, l3, locs3, k=1, seed=seed)
        return [A, B]
    if name == "missing_slice":
        miss = [(f, (ti, 1, si)) for f in ("fcst", "pit", "p1", "p2", "p3", "q0.1", "q0.5", "q0.9", "e0", "e1", "e2", "crps")
                for ti in range(3) for si in range(3)]
        A = full_input("A.txt", t3, l3, locs3, k=0, seed=seed, missing=miss)
        B = full_input("B.txt", t3, l3, locs3, k=1, seed=seed)
        return [A, B]
    if name == "discrete_mass":
        ins = shape("regular", seed)
        for ai in ins:
            ai.x0 = 0.0
            ai.x1 = 6.0
        return ins
    if name == "deterministic":
        return [full_input(n, t3, l3, locs3, k=k, seed=seed, fields=("obs", "fcst"), missing=[("fcst", (0, 1, 1))]) for k, n in enumerate(("A.txt", "B.txt"))]
    if name == "ensemble_only":
        return [full_input(n, t3, l3, locs3, k=k, seed=seed, fields=("obs", "fcst", "e0", "e1", "e2"), missing=[("e1", (0, 1, 1))]) for k, n in enumerate(("A.txt", "B.txt"))]
    if name == "three_inputs":
        return shape("regular", seed) + [full_input("C.txt", t3, l3, locs3, k=2, seed=seed, missing=[("fcst", (2, 0, 1))])]
    if name == "one_input":
        return [full_input("A.txt", t3, l3, locs3, k=0, seed=seed, missing=[("fcst", (0, 1, 1))])]
    raise ValueError(name)


def write_text(inputs, subdir):
    """Write inputs as text files into scratch/subdir; returns their paths."""
    import os
    from . import harness as H
    d = os.path.join(H.scratch(), subdir)
    os.makedirs(d, exist_ok=True)
    paths = []
    for ai in inputs:
        p = os.path.join(d, ai.name)
        gen.text_file(ai, p)
        paths.append(p)
    return paths
