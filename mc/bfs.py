"""E2 - explicit-state breadth-first search over the real transition function.

A state is the event history that reaches it.  ``machine.build(history)`` creates fresh real
objects and replays the events (live numpy / netCDF objects do not copy reliably).
``machine.canon(obj)`` returns bytes / a hashable canonical form of everything mutable that can
influence the future.  The search is level-synchronous: the frontier of one depth is split over
the worker processes, each returns (canonical hash, violations, observation); the master
de-duplicates in frontier order, so the result does not depend on scheduling.

Machine protocol (duck typed):
    events(history) -> list of events enabled after this history (events must be picklable)
    build(history)  -> obj
    apply(obj, event) -> observation   (mutates obj; the observation is what the caller sees)
    canon(obj) -> bytes | hashable
    invariant(obj, history) -> list of (locus, detail)          [state invariant]
    step_invariant(obj_before_snapshot, obj, event, observation, history) -> list   [optional]
    snapshot(obj) -> anything handed to step_invariant          [optional]
    observe(observation) -> hashable                             [canonical observation]

Merge validation (depth-1 bisimulation): when a history is merged into a known state, both
histories are extended by every enabled event and the observations must be identical.
"""
import multiprocessing
import os
import time

from .explore import stable_hash, HarnessError, crash_site, jsonable

_M = {}


def _run_step(task):
    hist, ev = task
    m = _M["machine"]
    vio = []
    try:
        obj = m.build(hist)
        snap = m.snapshot(obj) if hasattr(m, "snapshot") else None
        try:
            observation = m.apply(obj, ev)
        except BaseException as e:  # noqa
            in_repo, site = crash_site(e, _M["repo_root"])
            if not (in_repo or isinstance(e, SystemExit)):
                raise
            return (None, [("crash:" + site, {"exception": repr(e)[:300]})], None, None)
        if hasattr(m, "step_invariant"):
            vio.extend(m.step_invariant(snap, obj, ev, observation, hist) or [])
        new_hist = tuple(hist) + (ev,)
        vio.extend(m.invariant(obj, new_hist) or [])
        c = m.canon(obj)
        h = stable_hash(c)
        o = stable_hash(m.observe(observation)) if hasattr(m, "observe") else None
        return (h, vio, o, None)
    except HarnessError as e:
        return (None, [], None, "hist=%r ev=%r: %s" % (hist, ev, e))


def _run_bisim(task):
    h1, h2 = task
    m = _M["machine"]
    evs1 = list(m.events(h1))
    evs2 = list(m.events(h2))
    if [repr(e) for e in evs1] != [repr(e) for e in evs2]:
        return ("enabled events differ", None)
    def step(o, ev):
        try:
            return m.observe(m.apply(o, ev))
        except HarnessError:
            raise
        except BaseException as e:  # noqa - a crashing transition is an observation like any other
            return ("crash", crash_site(e, _M["repo_root"])[1])
    for ev in evs1:
        o1 = m.build(h1)
        r1 = step(o1, ev)
        o2 = m.build(h2)
        r2 = step(o2, ev)
        if stable_hash(r1) != stable_hash(r2) or stable_hash(m.canon(o1)) != stable_hash(m.canon(o2)):
            return ("after event %r" % (ev,), ev)
    return (None, None)


class BfsResult(object):
    def __init__(self):
        self.states = 0
        self.transitions = 0
        self.depth = 0
        self.fixpoint = False
        self.violations = {}      # locus -> dict(history, detail)
        self.violation_count = 0
        self.merges = 0
        self.merges_validated = 0
        self.merge_failures = []
        self.observations = set()
        self.samples = []
        self.capped = None
        self.level_sizes = []


def bfs(machine, max_depth=None, jobs=None, repo_root="/repo", validate_merges=1000,
        time_cap=None, state_cap=None):
    jobs = jobs or int(os.environ.get("VERIF_MC_JOBS", "0")) or min(16, os.cpu_count() or 1)
    if os.environ.get("VERIF_MC_MAX_CAP"):         # an operator-imposed ceiling on every search (reported as a cap when hit)
        time_cap = min(time_cap or 1e9, float(os.environ["VERIF_MC_MAX_CAP"]))
    _M.update(machine=machine, repo_root=os.path.abspath(repo_root))
    res = BfsResult()
    t0 = time.time()
    init = machine.build(())
    res_vio = machine.invariant(init, ()) or []
    for locus, detail in res_vio:
        res.violations.setdefault(locus, {"history": [], "detail": jsonable(detail)})
        res.violation_count += 1
    seen = {stable_hash(machine.canon(init)): ()}
    seen_obs = {}
    res.states = 1
    frontier = [()]
    depth = 0
    pending_bisim = []
    ctxm = multiprocessing.get_context("fork")
    pool = ctxm.Pool(jobs) if jobs > 1 else None
    try:
        while frontier:
            if max_depth is not None and depth >= max_depth:
                break
            tasks = []
            for h in frontier:
                for ev in machine.events(h):
                    tasks.append((h, ev))
            if not tasks:
                frontier = []      # no state of the frontier has an enabled event: nothing left to explore
                break
            if pool is not None:
                cs = max(1, len(tasks) // (jobs * 8))
                results = pool.map(_run_step, tasks, chunksize=cs)
            else:
                results = [_run_step(t) for t in tasks]
            nxt = []
            for (h, ev), (hh, vio, obs, err) in zip(tasks, results):
                if err:
                    raise HarnessError(err)
                res.transitions += 1
                new_hist = tuple(h) + (ev,)
                for locus, detail in vio:
                    res.violation_count += 1
                    cur = res.violations.get(locus)
                    if cur is None or len(new_hist) < len(cur["history"]):
                        res.violations[locus] = {"history": list(new_hist), "detail": jsonable(detail)}
                if obs is not None:
                    res.observations.add(obs)
                if hh is None:
                    continue      # crashed transition: no successor state
                if hh not in seen:
                    seen[hh] = new_hist
                    seen_obs[hh] = obs
                    nxt.append(new_hist)
                    if len(res.samples) < 5:
                        res.samples.append({"history": jsonable(list(new_hist))})
                else:
                    res.merges += 1
                    locus = getattr(machine, "merge_obs_locus", None)
                    if locus is not None and obs != seen_obs.get(hh):
                        # the machine declares that the observation is a function of the state reached:
                        # two histories reaching the same state must have produced the same last observation
                        res.violation_count += 1
                        if locus not in res.violations:
                            res.violations[locus] = {"history": list(new_hist), "detail": jsonable({"other_history": list(seen[hh])})}
                    if validate_merges is None or len(pending_bisim) < validate_merges:
                        if seen[hh] != new_hist:
                            pending_bisim.append((new_hist, seen[hh]))
            res.states = len(seen)
            res.level_sizes.append(len(nxt))
            depth += 1
            res.depth = depth
            frontier = nxt
            if time_cap is not None and time.time() - t0 > time_cap:
                res.capped = "time cap %ss hit at depth %d" % (time_cap, depth)
                break
            if state_cap is not None and len(seen) > state_cap:
                res.capped = "state cap %d hit at depth %d" % (state_cap, depth)
                break
        res.fixpoint = (not frontier) and res.capped is None
        # merge validation
        if pending_bisim and hasattr(machine, "observe"):
            if pool is not None:
                cs = max(1, len(pending_bisim) // (jobs * 8))
                out = pool.map(_run_bisim, pending_bisim, chunksize=cs)
            else:
                out = [_run_bisim(t) for t in pending_bisim]
            for (h1, h2), (why, ev) in zip(pending_bisim, out):
                res.merges_validated += 1
                if why is not None:
                    res.merge_failures.append({"h1": jsonable(list(h1)), "h2": jsonable(list(h2)), "why": why})
    finally:
        if pool is not None:
            pool.close()
            pool.join()
    return res
