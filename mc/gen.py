"""Small-scope dataset generators: abstract input -> in-memory Input | text file | NetCDF file.

An abstract input (AInput) lists its dimensions in *file order* (possibly unsorted, possibly with
extra or repeated entries) and holds, per field, a dict from POSITION (ti, li, si) to a float.
A position that is absent from the dict (or maps to None / NaN) is missing.

field names follow the text-format header: obs fcst pit p<threshold> q<quantile> e<member> <other>
"""
import math
import os

MISSING = None


def is_missing(v):
    return v is None or (isinstance(v, float) and (math.isnan(v) or math.isinf(v)))


def fmt_num(v):
    """Shortest decimal text that parses back to exactly v (repr), without exponent surprises."""
    if v is None or (isinstance(v, float) and v != v):
        return "nan"
    if float(v) == int(v) and abs(v) < 1e15:
        return "%d" % int(v)
    return repr(float(v))


class AInput(object):
    def __init__(self, name, times, leads, locs, fields=None, variable=None, units=None, x0=None, x1=None):
        self.name = name
        self.times = list(times)          # unixtimes, file order
        self.leads = list(leads)          # hours, file order
        self.locs = [tuple(l) for l in locs]   # (id, lat, lon, elev), file order
        self.fields = fields or {}        # name -> {(ti,li,si): value}
        self.variable = variable
        self.units = units
        self.x0 = x0
        self.x1 = x1
        # False: thresholds / quantiles / members are stored in ascending order; True: in the insertion order of `fields`
        self.keep_field_order = False

    # ---- structure ---------------------------------------------------------------------------
    def field_names(self):
        return list(self.fields.keys())

    def has(self, name):
        return name in self.fields

    def thresholds(self):
        return [float(n[1:]) for n in self.fields if _kind(n) == "p"]

    def quantiles(self):
        return [float(n[1:]) for n in self.fields if _kind(n) == "q"]

    def members(self):
        return sorted(int(float(n[1:])) for n in self.fields if _kind(n) == "e")

    def others(self):
        return [n for n in self.fields if _kind(n) == "o"]

    def positions(self):
        return [(ti, li, si) for ti in range(len(self.times)) for li in range(len(self.leads))
                for si in range(len(self.locs))]

    def get(self, name, pos):
        v = self.fields[name].get(pos)
        return None if is_missing(v) else v

    def first_index(self, dim, value):
        seq = {"t": self.times, "l": self.leads, "s": [l[0] for l in self.locs]}[dim]
        for i, v in enumerate(seq):
            if v == value:
                return i
        return None

    def value_at(self, name, t, l, sid):
        """Value stored for the coordinates (first occurrence of each), or None."""
        if name not in self.fields:
            return None
        ti, li, si = self.first_index("t", t), self.first_index("l", l), self.first_index("s", sid)
        if ti is None or li is None or si is None:
            return None
        return self.get(name, (ti, li, si))

    def copy(self):
        c = AInput(self.name, self.times, self.leads, self.locs,
                   {k: dict(v) for k, v in self.fields.items()}, self.variable, self.units, self.x0, self.x1)
        c.keep_field_order = self.keep_field_order
        return c

    def describe(self):
        return {"name": self.name, "times": self.times, "leads": self.leads, "locs": self.locs,
                "fields": {k: {"%d,%d,%d" % p: v for p, v in sorted(d.items())} for k, d in self.fields.items()}}


def _kind(name):
    if name in ("obs", "fcst", "pit"):
        return name
    if len(name) > 1 and name[0] in "pqe":
        try:
            float(name[1:])
            return name[0]
        except ValueError:
            pass
    return "o"


kind = _kind


# ------------------------------------------------------------------------------------------------
# in-memory Input
# ------------------------------------------------------------------------------------------------
def mem_input(ai):
    """A fresh verif Input object holding the abstract input's data in file order."""
    import numpy as np
    import verif.input
    import verif.location
    import verif.variable

    class MemInput(verif.input.Input):
        description = "in-memory input of the verification harness"

        def other_score(self, name):
            return self._others[name]

    m = MemInput()
    T, L, S = len(ai.times), len(ai.leads), len(ai.locs)
    m.fullname = ai.name
    m.times = np.array(ai.times, dtype=float)
    m.leadtimes = np.array(ai.leads, dtype=float)
    m.locations = [verif.location.Location(l[0], l[1], l[2], l[3]) for l in ai.locs]

    def arr(name):
        a = np.full((T, L, S), np.nan)
        for pos, v in ai.fields[name].items():
            if not is_missing(v):
                a[pos] = v
        return a
    m.obs = arr("obs") if ai.has("obs") else None
    m.fcst = arr("fcst") if ai.has("fcst") else None
    m.pit = arr("pit") if ai.has("pit") else None
    thr = sorted(set(ai.thresholds())) if not ai.keep_field_order else list(dict.fromkeys(ai.thresholds()))
    m.thresholds = np.array(thr, dtype=float)
    m.threshold_scores = np.full((T, L, S, len(thr)), np.nan)
    for n in ai.fields:
        if _kind(n) == "p":
            m.threshold_scores[:, :, :, thr.index(float(n[1:]))] = arr(n)
    qs = sorted(set(ai.quantiles())) if not ai.keep_field_order else list(dict.fromkeys(ai.quantiles()))
    m.quantiles = np.array(qs, dtype=float)
    m.quantile_scores = np.full((T, L, S, len(qs)), np.nan)
    for n in ai.fields:
        if _kind(n) == "q":
            m.quantile_scores[:, :, :, qs.index(float(n[1:]))] = arr(n)
    mem = ai.members()
    if mem:
        m.ensemble = np.full((T, L, S, len(mem)), np.nan)
        for n in ai.fields:
            if _kind(n) == "e":
                m.ensemble[:, :, :, mem.index(int(float(n[1:])))] = arr(n)
    else:
        m.ensemble = None
    m._others = {n: arr(n) for n in ai.others()}
    m.other_fields = list(m._others.keys())
    m.variable = verif.variable.Variable(ai.variable or "Unknown variable", ai.units or "Unknown units",
                                         x0=ai.x0, x1=ai.x1)
    return m


# ------------------------------------------------------------------------------------------------
# text file
# ------------------------------------------------------------------------------------------------
def text_file(ai, path, row_order=None, columns=None, time_cols="unixtime", lead_col="leadtime",
              loc_col="location", elev_col="altitude", with_latlon=True, sep=" ", missing_token="-999",
              missing_tokens=None, drop_missing_rows=False, comments=(), meta=True):
    """Write the abstract input as a verif text file.

    row_order        permutation of ai.positions() (default natural)
    columns          order of the header columns (default: coordinates first, then fields)
    time_cols        'unixtime' | 'date' (time must be at 00 UTC) | 'datehour' | None
    missing_tokens   optional {(field, pos): token}; otherwise missing_token
    drop_missing_rows  omit rows in which every data field is missing (sparse file)
    """
    from .ref import calendar as cal
    coord = []
    if time_cols == "unixtime":
        coord.append("unixtime")
    elif time_cols == "date":
        coord.append("date")
    elif time_cols == "datehour":
        coord += ["date", "hour"]
    if lead_col:
        coord.append(lead_col)
    if loc_col:
        coord.append(loc_col)
    if with_latlon:
        coord += ["lat", "lon"]
    if elev_col:
        coord.append(elev_col)
    fields = ai.field_names()
    cols = list(columns) if columns is not None else coord + fields
    lines = []
    if meta:
        if ai.variable is not None:
            lines.append("# variable: %s" % ai.variable)
        if ai.units is not None:
            lines.append("# units: %s" % ai.units)
        if ai.x0 is not None:
            lines.append("# x0: %s" % fmt_num(ai.x0))
        if ai.x1 is not None:
            lines.append("# x1: %s" % fmt_num(ai.x1))
    lines.extend(comments)
    lines.append(sep.join(cols))
    order = row_order if row_order is not None else ai.positions()
    for pos in order:
        ti, li, si = pos
        if drop_missing_rows and all(ai.get(f, pos) is None for f in fields):
            continue
        t = ai.times[ti]
        loc = ai.locs[si]
        cell = {}
        cell["unixtime"] = fmt_num(t)
        cell["date"] = "%d" % cal.unixtime_to_date(t)
        cell["hour"] = fmt_num((int(t) % 86400) / 3600.0)
        cell["leadtime"] = cell["offset"] = fmt_num(ai.leads[li])
        cell["location"] = cell["id"] = fmt_num(loc[0])
        cell["lat"], cell["lon"] = fmt_num(loc[1]), fmt_num(loc[2])
        cell["altitude"] = cell["elev"] = fmt_num(loc[3])
        for f in fields:
            v = ai.get(f, pos)
            if v is None:
                tok = missing_token
                if missing_tokens is not None:
                    tok = missing_tokens.get((f, pos), missing_token)
                cell[f] = tok
            else:
                cell[f] = fmt_num(v)
        lines.append(sep.join(cell[c] for c in cols))
    with open(path, "w") as f:
        f.write("\n".join(lines) + "\n")
    return path


# ------------------------------------------------------------------------------------------------
# NetCDF file
# ------------------------------------------------------------------------------------------------
def netcdf_file(ai, path, missing_enc="nan", missing_encs=None, with_vars=("location", "lat", "lon", "altitude"),
                time_dtype="f8", attrs=True, fill_value=None, fmt="NETCDF4", dtype="f4"):
    """Write the abstract input in the documented NetCDF layout.

    missing_enc: 'nan' | '-999' | 'masked' (default fill) | 'fill' (explicit _FillValue) | '1e31'
    missing_encs: optional {(field, pos): enc}
    """
    import netCDF4
    import numpy as np
    T, L, S = len(ai.times), len(ai.leads), len(ai.locs)
    if os.path.exists(path):
        os.remove(path)
    ds = netCDF4.Dataset(path, "w", format=fmt)
    ds.createDimension("time", None)
    ds.createDimension("leadtime", L)
    ds.createDimension("location", S)
    v = ds.createVariable("time", time_dtype, ("time",))
    v[:] = np.array(ai.times, dtype=time_dtype)
    v = ds.createVariable("leadtime", "f4", ("leadtime",))
    v[:] = np.array(ai.leads, dtype="f4")
    if "location" in with_vars:
        v = ds.createVariable("location", "i4", ("location",))
        v[:] = np.array([l[0] for l in ai.locs], dtype="i4")
    if "lat" in with_vars:
        v = ds.createVariable("lat", "f4", ("location",))
        v[:] = np.array([l[1] for l in ai.locs], dtype="f4")
    if "lon" in with_vars:
        v = ds.createVariable("lon", "f4", ("location",))
        v[:] = np.array([l[2] for l in ai.locs], dtype="f4")
    if "altitude" in with_vars:
        v = ds.createVariable("altitude", "f4", ("location",))
        v[:] = np.array([l[3] for l in ai.locs], dtype="f4")

    # an ordinary number as the explicit _FillValue: it is missing only because the file declares it so
    explicit_fill = -9999.0 if fill_value is None else fill_value

    def enc_of(f, pos):
        if missing_encs is not None and (f, pos) in missing_encs:
            return missing_encs[(f, pos)]
        return missing_enc

    def fill3(f):
        """(array, mask) for a 3-d field"""
        a = np.zeros((T, L, S), dtype="f8")
        mask = np.zeros((T, L, S), dtype=bool)
        need_fill = False
        for pos in ai.positions():
            val = ai.get(f, pos)
            if val is not None:
                a[pos] = val
                continue
            e = enc_of(f, pos)
            if e == "nan":
                a[pos] = np.nan
            elif e == "-999":
                a[pos] = -999
            elif e == "1e31":
                a[pos] = 1e31
            elif e == "inf":
                a[pos] = np.inf
            elif e == "-inf":
                a[pos] = -np.inf
            elif e in ("masked", "fill"):
                mask[pos] = True
                need_fill = need_fill or e == "fill"
            else:
                raise ValueError(e)
        return a, mask, need_fill

    def put3(name, f):
        a, mask, need_fill = fill3(f)
        if need_fill:
            var = ds.createVariable(name, dtype, ("time", "leadtime", "location"), fill_value=explicit_fill)
        else:
            var = ds.createVariable(name, dtype, ("time", "leadtime", "location"))
        var[:] = np.ma.masked_array(a, mask=mask) if mask.any() else a

    def put4(name, dimname, fnames):
        K = len(fnames)
        stack = [fill3(f) for f in fnames]
        need_fill = any(s[2] for s in stack)
        a = np.stack([s[0] for s in stack], axis=-1)
        mask = np.stack([s[1] for s in stack], axis=-1)
        if need_fill:
            var = ds.createVariable(name, dtype, ("time", "leadtime", "location", dimname), fill_value=explicit_fill)
        else:
            var = ds.createVariable(name, dtype, ("time", "leadtime", "location", dimname))
        var[:] = np.ma.masked_array(a, mask=mask) if mask.any() else a

    for f in ("obs", "fcst", "pit"):
        if ai.has(f):
            put3(f, f)
    pn = [n for n in ai.fields if _kind(n) == "p"]
    if pn:
        if not ai.keep_field_order:
            pn.sort(key=lambda n: float(n[1:]))
        ds.createDimension("threshold", len(pn))
        v = ds.createVariable("threshold", "f4", ("threshold",))
        v[:] = np.array([float(n[1:]) for n in pn], dtype="f4")
        put4("cdf", "threshold", pn)
    qn = [n for n in ai.fields if _kind(n) == "q"]
    if qn:
        if not ai.keep_field_order:
            qn.sort(key=lambda n: float(n[1:]))
        ds.createDimension("quantile", len(qn))
        v = ds.createVariable("quantile", "f4", ("quantile",))
        v[:] = np.array([float(n[1:]) for n in qn], dtype="f4")
        put4("x", "quantile", qn)
    en = [n for n in ai.fields if _kind(n) == "e"]
    if en:
        en.sort(key=lambda n: float(n[1:]))
        ds.createDimension("ensemble_member", len(en))
        put4("ensemble", "ensemble_member", en)
    for n in ai.others():
        put3(n, n)
    if attrs:
        if ai.variable is not None:
            ds.long_name = ai.variable
        if ai.units is not None:
            ds.units = ai.units
        if ai.x0 is not None:
            ds.x0 = float(ai.x0)
        if ai.x1 is not None:
            ds.x1 = float(ai.x1)
    ds.close()
    return path


# ------------------------------------------------------------------------------------------------
# palettes
# ------------------------------------------------------------------------------------------------
BASE_TIME = 1325376000   # 2012-01-01 00:00 UTC


def palette(seed):
    """Concrete numbers for 'value 1, value 2, ...': dyadic rationals exact in float32 / %g / f4."""
    scale = [0.125, 0.25, 0.5, 1.0][seed % 4]
    offset = [0, 3, -5, 11][(seed // 4) % 4]

    def val(k):
        return offset + scale * k
    return val


def unique_values(seed, n, start=1):
    """n distinct, float32-exact, non-zero values (different in every cell)."""
    val = palette(seed)
    out = []
    k = start
    while len(out) < n:
        v = val(k)
        if v != 0 and v != -999:
            out.append(v)
        k += 1
    return out


def std_locs(n, seed=0):
    """n locations with distinct, non-overlapping id / lat / lon / elev ranges."""
    base = 100 + (seed % 5) * 10
    return [(base + 7 * i, 40.0 + 2.5 * i, -120.0 + 3.5 * i, 1000.0 + 250.0 * i) for i in range(n)]
