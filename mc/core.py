"""Runner: sub-check reports -> findings matching -> replay files -> evidence -> exit status."""
import hashlib
import json
import os
import subprocess
import sys
import time

from . import explore as E1
from . import bfs as E2

VERIF_DIR = os.path.dirname(os.path.dirname(os.path.abspath(__file__)))
REPO = os.path.abspath(os.environ.get("VERIF_MC_REPO", "/repo"))
LEVELS = {}


def seed():
    try:
        return int(os.environ.get("VERIF_SEED", "0"))
    except ValueError:
        return 0


def bind_repo():
    """Make `import verif` resolve to the tree under test and assert it."""
    if REPO != "/repo":
        sys.path.insert(0, REPO)
    import verif
    root = os.path.dirname(os.path.dirname(os.path.abspath(verif.__file__)))
    if os.path.realpath(root) != os.path.realpath(REPO):
        print("HARNESS-ERROR: verif imported from %s, expected %s" % (root, REPO))
        sys.exit(2)
    return REPO


class Sub(object):
    """Report of one sub-check."""

    def __init__(self, name, engine, rule=""):
        self.name = name
        self.engine = engine
        self.rule = rule
        self.executions = 0
        self.states = 0
        self.transitions = 0
        self.distinct = 0
        self.nontrivial = 0
        self.outcomes = {}
        self.violations = []       # dicts: locus, detail, choices|history, deviations, notes
        self.violation_count = 0
        self.bound = ""
        self.caps = []
        self.exhaustive = True
        self.samples = []
        self.extra = {}
        self.vacuous = None
        self.traces_validated = 0
        self.wall = 0.0
        self.replayer = None       # callable(record) -> list of loci still failing

    @classmethod
    def from_e1(cls, name, stats, bound, rule="", required_flags=(), min_outcomes=2, wall=0.0,
                harness=None, params=None):
        s = cls(name, "E1", rule)
        s.executions = stats.executions
        s.states = stats.nodes
        s.transitions = max(0, stats.nodes - 1)
        s.distinct = len(stats.obs)
        s.nontrivial = stats.nontrivial      # executions are distinct cases by construction (distinct choice vectors)
        s.outcomes = dict(stats.outcomes)
        s.violation_count = stats.violation_count
        for locus in sorted(stats.violations, key=lambda l: stats.violations[l].key()):
            v = stats.violations[locus]
            d = v.as_dict()
            d["engine"] = "E1"
            s.violations.append(d)
        s.bound = bound
        s.exhaustive = not stats.capped
        if stats.capped:
            s.caps.append("execution/time cap hit")
        s.samples = stats.samples[:4]
        s.traces_validated = stats.executions
        s.wall = wall
        if stats.units:
            s.extra["cases_checked"] = stats.units
        missing = [f for f in required_flags if f not in stats.flags]
        if missing:
            s.vacuous = "oracle branch never taken: %s" % ",".join(missing)
        elif s.distinct < 2 and len(s.outcomes) < min_outcomes and not s.violations:
            s.vacuous = "fewer than 2 distinct observations/outcomes"
        elif s.nontrivial == 0 and not s.violations:
            s.vacuous = "no non-trivial case"
        return s

    @classmethod
    def from_e2(cls, name, res, bound, rule="", wall=0.0):
        s = cls(name, "E2", rule)
        s.executions = res.transitions
        s.states = res.states
        s.transitions = res.transitions
        s.distinct = res.states
        s.nontrivial = max(0, res.states - 1)
        s.outcomes = {"observations": len(res.observations)}
        s.violation_count = res.violation_count
        for locus in sorted(res.violations, key=lambda l: len(res.violations[l]["history"])):
            v = res.violations[locus]
            s.violations.append({"locus": locus, "detail": v["detail"], "history": v["history"],
                                 "deviations": len(v["history"]), "engine": "E2", "notes": {}})
        s.bound = bound + ("; fixpoint reached" if res.fixpoint else "; depth %d" % res.depth)
        s.exhaustive = res.capped is None
        if res.capped:
            s.caps.append(res.capped)
        s.samples = res.samples[:4]
        s.traces_validated = res.transitions
        s.extra = {"fixpoint": res.fixpoint, "depth": res.depth, "merges": res.merges,
                   "merges_validated": res.merges_validated, "level_sizes": res.level_sizes}
        s.wall = wall
        if res.merge_failures:
            s.vacuous = "canonical form unsound: merged histories diverge: %r" % (res.merge_failures[:2],)
        elif res.states < 2 and not s.violations:
            s.vacuous = "fewer than 2 states"
        return s

    def line(self, pid):
        return ("%s/%s: engine=%s executions=%d states=%d transitions=%d distinct=%d nontrivial=%d "
                "outcomes=%s bound=%s cap=%s violations=%d wall=%.1fs"
                % (pid, self.name, self.engine, self.executions, self.states, self.transitions,
                   self.distinct, self.nontrivial,
                   json.dumps(dict(sorted(self.outcomes.items())[:8]), sort_keys=True),
                   self.bound, ("; ".join(self.caps) or "no"), self.violation_count, self.wall))


def load_known():
    path = os.path.join(VERIF_DIR, "known_findings.json")
    if not os.path.exists(path):
        return []
    with open(path) as f:
        return json.load(f)


def match_known(known, pid, sub, locus):
    for k in known:
        if k.get("property") != pid or k.get("status") != "known":
            continue
        ksub, klocus = k["signature"]
        if ksub != sub and ksub != "*":
            continue
        if klocus == locus or (klocus.endswith("*") and locus.startswith(klocus[:-1])):
            return k
    return None


def write_replay(pid, sub, v, tier):
    d = os.path.join(os.environ.get("VERIF_MC_OUT") or VERIF_DIR, "replays", pid)
    os.makedirs(d, exist_ok=True)
    body = {"property": pid, "subcheck": sub.name, "signature": [sub.name, v["locus"]],
            "tier": tier, "seed": seed(), "engine": v.get("engine", sub.engine)}
    for k in ("choices", "labels", "history", "detail", "notes", "deviations"):
        if k in v:
            body[k] = v[k]
    blob = json.dumps(body, sort_keys=True, default=str)
    h = hashlib.blake2b(blob.encode(), digest_size=5).hexdigest()
    safe = "".join(c if c.isalnum() or c in "-_." else "_" for c in ("%s-%s" % (sub.name, v["locus"])))[:90]
    path = os.path.join(d, "%s-%s.json" % (safe, h))
    with open(path, "w") as f:
        json.dump(body, f, indent=1, sort_keys=True, default=str)
    return path


def validate_evidence(path):
    schema = "/root/.vp/EVIDENCE.schema.json"
    if not os.path.exists(schema):
        schema = os.path.join(VERIF_DIR, "schemas", "EVIDENCE.schema.json")
    if not os.path.exists(schema):
        return None
    code = ("import json,jsonschema,sys;"
            "jsonschema.validate(json.load(open(sys.argv[1])),json.load(open(sys.argv[2])))")
    for py in ("python3-vt", "/opt/veriftools/pyvenv/bin/python"):
        try:
            r = subprocess.run([py, "-c", code, path, schema], capture_output=True, text=True, timeout=60)
        except (OSError, subprocess.TimeoutExpired):
            continue
        if r.returncode == 0:
            return True
        if "ModuleNotFoundError" in r.stderr:
            continue
        return r.stderr[-800:]
    return None


def finish(pid, level, tier, subs, t0, assumptions=(), technique=""):
    """Print lines, match findings, write replays + evidence, return exit status."""
    known = load_known()
    exit_code = 0
    printed_known = set()
    n_viol_lines = 0
    harness_problem = []
    unknown_violations = 0
    for s in subs:
        print(s.line(pid))
        if s.vacuous:
            harness_problem.append("%s/%s: %s" % (pid, s.name, s.vacuous))
        for v in s.violations:
            k = match_known(known, pid, s.name, v["locus"])
            if k is not None:
                key = (k["signature"][0], k["signature"][1])
                if key not in printed_known:
                    printed_known.add(key)
                    print("KNOWN-FINDING: property=%s %s [%s/%s]" % (pid, k["what"], s.name, v["locus"]))
                continue
            unknown_violations += 1
            if n_viol_lines < 20:
                path = write_replay(pid, s, v, tier)
                print("VIOLATION property=%s replay=%s" % (pid, path))
                print("   sub-check=%s locus=%s deviations=%s detail=%s"
                      % (s.name, v["locus"], v.get("deviations"), json.dumps(v.get("detail"), default=str)[:600]))
                n_viol_lines += 1
            exit_code = 1
    wall = time.time() - t0
    cov = {
        "evaluations": sum(s.executions for s in subs),
        "distinct_nontrivial": sum(s.nontrivial for s in subs),
        "rule": " || ".join("%s: %s" % (s.name, s.rule) for s in subs if s.rule),
        "states": sum(s.states for s in subs),
        "transitions": sum(s.transitions for s in subs),
        "traces_validated_against_impl": sum(s.traces_validated for s in subs),
        "distinct_observations": sum(s.distinct for s in subs),
        "exhaustive": all(s.exhaustive for s in subs),
        "caps_hit": [c for s in subs for c in s.caps],
        "technique": technique,
        "process_time_zone": "%s (%s)" % (os.environ.get("TZ", "unset"), "/".join(time.tzname)),
        "known_findings_matched": sorted("%s/%s" % k for k in printed_known),
        "samples": [dict(sub=s.name, **smp) for s in subs for smp in s.samples[:2]][:12] or [{"note": "no samples"}],
        "subchecks": [{"name": s.name, "engine": s.engine, "executions": s.executions, "states": s.states,
                       "transitions": s.transitions, "distinct_observations": s.distinct,
                       "distinct_nontrivial": s.nontrivial, "outcomes": s.outcomes, "bound_completed": s.bound,
                       "exhaustive": s.exhaustive, "caps_hit": s.caps, "violations": s.violation_count,
                       "wall_s": round(s.wall, 2), "extra": s.extra, "rule": s.rule} for s in subs],
    }
    ev = {"property_id": pid, "tier": tier, "seed": seed(), "level": level, "coverage": cov,
          "assumptions": list(assumptions), "wall_s": round(wall, 2), "violations": unknown_violations}
    evdir = os.environ.get("VERIF_MC_OUT") or VERIF_DIR      # VERIF_MC_OUT: mutant campaigns write elsewhere
    os.makedirs(os.path.join(evdir, "evidence"), exist_ok=True)
    path = os.path.join(evdir, "evidence", "%s.json" % pid)
    with open(path, "w") as f:
        json.dump(E1.jsonable(ev), f, indent=1, sort_keys=True)
    ok = validate_evidence(path)
    if ok not in (True, None):
        harness_problem.append("evidence file does not validate: %s" % ok)
    print("%s: tier=%s seed=%d evaluations=%d states=%d transitions=%d nontrivial=%d exhaustive=%s wall=%.1fs"
          % (pid, tier, seed(), cov["evaluations"], cov["states"], cov["transitions"],
             cov["distinct_nontrivial"], cov["exhaustive"], wall))
    if exit_code == 0 and harness_problem:
        for h in harness_problem:
            print("HARNESS-ERROR: " + h)
        return 2
    return exit_code
