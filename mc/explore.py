"""E1 - stateless choice-point explorer (CHESS-style, for data nondeterminism).

A harness is a function ``run(ctx)``.  Every decision that shapes the case is taken with
``ctx.choose(label, options)``.  The explorer re-executes the harness once per choice vector:
depth first over the choice tree, replaying a prefix and taking option 0 (the declared default)
afterwards.

modes
  full    the whole choice tree
  dev(k)  only vectors with at most k non-default choices at *bounded* choice points; choice
          points declared ``free=True`` are always enumerated completely (they do not count as
          deviations), which gives "full product over these x dev(k) over those".

Executions always run to completion.  An out-of-range choice while replaying a prefix, or a
replay whose labels differ from the recorded ones, is a HarnessError (harness nondeterminism),
never a violation.

The subtree under a prefix p is: the execution p+defaults, plus, for every later position i and
every alternative a != 0 there, the subtree of trace[:i]+[a].  Subtrees of distinct children
are disjoint, so the tree can be cut anywhere and handed to worker processes; results are merged
in prefix order so that nothing depends on scheduling.
"""
import hashlib
import multiprocessing
import os
import sys
import time
import traceback


class HarnessError(Exception):
    pass


def stable_hash(value):
    """64-bit hash of a canonical repr (independent of PYTHONHASHSEED)."""
    if not isinstance(value, (bytes, bytearray)):
        value = repr(value).encode()
    return int.from_bytes(hashlib.blake2b(value, digest_size=8).digest(), "big")


class Violation(object):
    __slots__ = ("locus", "detail", "choices", "labels", "deviations", "notes")

    def __init__(self, locus, detail, choices, labels, deviations, notes):
        self.locus = locus
        self.detail = detail
        self.choices = choices
        self.labels = labels
        self.deviations = deviations
        self.notes = notes

    def key(self):
        return (self.deviations, len(self.choices), self.choices)

    def as_dict(self):
        return {"locus": self.locus, "detail": self.detail, "choices": list(self.choices),
                "labels": list(self.labels), "deviations": self.deviations, "notes": self.notes}


class Ctx(object):
    """One execution of a harness."""

    def __init__(self, prefix=(), expect_labels=None, params=None):
        self.prefix = tuple(prefix)
        self.expect_labels = expect_labels
        self.params = params or {}
        self.choices = []
        self.labels = []
        self.arity = []
        self.free = []
        self.notes = {}
        self.observations = []
        self.outcomes = []
        self.is_nontrivial = False
        self.violations = []
        self.flags = set()
        self.units = 0

    def count(self, n=1):
        """number of elementary comparisons made by this execution (reported as cases_checked)"""
        self.units += n

    # -- decisions -------------------------------------------------------------------------
    def choose(self, label, options, free=False):
        n = len(options)
        if n == 0:
            raise HarnessError("choose(%r) with no options" % (label,))
        i = len(self.choices)
        if i < len(self.prefix):
            c = self.prefix[i]
            if c < 0 or c >= n:
                raise HarnessError("replay: choice %d out of range (%d options) at #%d %r"
                                   % (c, n, i, label))
            if self.expect_labels is not None and i < len(self.expect_labels) \
                    and self.expect_labels[i] != label:
                raise HarnessError("replay: label mismatch at #%d: recorded %r, now %r"
                                   % (i, self.expect_labels[i], label))
        else:
            c = 0
        self.choices.append(c)
        self.labels.append(label)
        self.arity.append(n)
        self.free.append(bool(free))
        return options[c]

    def choose_bool(self, label, free=False):
        return self.choose(label, (False, True), free=free)

    # -- bookkeeping -----------------------------------------------------------------------
    def note(self, key, value):
        self.notes[key] = value

    def observe(self, value):
        self.observations.append(stable_hash(value))

    def outcome(self, label):
        self.outcomes.append(label)

    def nontrivial(self, flag=True):
        if flag:
            self.is_nontrivial = True

    def flag(self, name):
        """Mark that an 'interesting' oracle branch was taken (vacuity guard)."""
        self.flags.add(name)

    @property
    def deviations(self):
        return sum(1 for c, f in zip(self.choices, self.free) if c != 0 and not f)

    # -- verdicts --------------------------------------------------------------------------
    def fail(self, locus, **detail):
        self.violations.append(Violation(locus, _jsonable(detail), tuple(self.choices),
                                         tuple(self.labels), self.deviations, None))

    def require(self, cond, locus, **detail):
        if not cond:
            self.fail(locus, **detail)
        return bool(cond)


def _jsonable(x, depth=0):
    import math
    if depth > 14:
        return repr(x)
    if x is None or isinstance(x, (bool, int, str)):
        return x
    if isinstance(x, float):
        if math.isnan(x):
            return "nan"
        if math.isinf(x):
            return "inf" if x > 0 else "-inf"
        return x
    if isinstance(x, dict):
        return {str(k): _jsonable(v, depth + 1) for k, v in x.items()}
    if isinstance(x, (list, tuple, set, frozenset)):
        return [_jsonable(v, depth + 1) for v in x]
    try:
        import numpy as np
        if isinstance(x, np.ndarray):
            return _jsonable(x.tolist(), depth + 1)
        if isinstance(x, np.generic):
            return _jsonable(x.item(), depth + 1)
    except Exception:
        pass
    return repr(x)


jsonable = _jsonable


# ------------------------------------------------------------------------------------------
# crash classification
# ------------------------------------------------------------------------------------------
def crash_site(exc, repo_root):
    """(in_repo, 'Type@func:source text') from the innermost frame inside repo_root."""
    tb = traceback.extract_tb(exc.__traceback__)
    site = None
    for fr in tb:
        fn = os.path.abspath(fr.filename)
        if fn.startswith(repo_root + os.sep):
            site = fr
    if site is None:
        return False, "%s@?" % type(exc).__name__
    src = (site.line or "").strip()
    rel = os.path.relpath(os.path.abspath(site.filename), repo_root)
    return True, "%s@%s:%s:%s" % (type(exc).__name__, rel, site.name, src)


# ------------------------------------------------------------------------------------------
# one execution
# ------------------------------------------------------------------------------------------
class Stats(object):
    def __init__(self):
        self.executions = 0
        self.nodes = 0
        self.obs = set()
        self.outcomes = {}
        self.nontrivial = 0
        self.nontrivial_obs = set()
        self.violations = {}      # locus -> best Violation
        self.violation_count = 0
        self.capped = False
        self.samples = []
        self.flags = set()
        self.max_dev = 0
        self.units = 0
        self.harness_errors = []

    def merge(self, other):
        self.executions += other.executions
        self.nodes += other.nodes
        self.obs |= other.obs
        for k, v in other.outcomes.items():
            self.outcomes[k] = self.outcomes.get(k, 0) + v
        self.nontrivial += other.nontrivial
        self.nontrivial_obs |= other.nontrivial_obs
        for k, v in other.violations.items():
            cur = self.violations.get(k)
            if cur is None or v.key() < cur.key():
                self.violations[k] = v
        self.violation_count += other.violation_count
        self.capped = self.capped or other.capped
        for s in other.samples:
            if len(self.samples) < 6:
                self.samples.append(s)
        self.flags |= other.flags
        self.max_dev = max(self.max_dev, other.max_dev)
        self.units += other.units
        self.harness_errors.extend(other.harness_errors[:3])


_G = {}   # set before the pool forks: harness, params, repo_root, mode, k


def _execute(prefix, stats, want_sample=False):
    harness = _G["harness"]
    ctx = Ctx(prefix, params=_G.get("params"))
    try:
        harness(ctx)
    except HarnessError:
        raise
    except BaseException as e:   # noqa - SystemExit from verif is a BaseException
        in_repo, site = crash_site(e, _G["repo_root"])
        if in_repo or isinstance(e, SystemExit):
            ctx.fail("uncaught:" + site, exception=repr(e)[:300])
            ctx.outcome("uncaught")
        else:
            raise HarnessError("harness raised outside the tree under test: %s\n%s"
                               % (repr(e), "".join(traceback.format_exception(e))[-3000:]))
    if len(ctx.choices) < len(prefix):
        raise HarnessError("replay: harness made %d choices, prefix has %d"
                           % (len(ctx.choices), len(prefix)))
    stats.executions += 1
    stats.nodes += len(ctx.choices) - len(prefix) + (1 if len(prefix) else 1)
    dev = ctx.deviations
    if dev > stats.max_dev:
        stats.max_dev = dev
    obs_key = stable_hash(tuple(ctx.observations)) if ctx.observations else None
    if obs_key is not None:
        stats.obs.add(obs_key)
    for o in ctx.outcomes:
        stats.outcomes[o] = stats.outcomes.get(o, 0) + 1
    if ctx.is_nontrivial:
        stats.nontrivial += 1
        stats.nontrivial_obs.add(obs_key if obs_key is not None else stable_hash(tuple(ctx.choices)))
    stats.flags |= ctx.flags
    stats.units += ctx.units
    for v in ctx.violations:
        stats.violation_count += 1
        v.notes = _jsonable(ctx.notes)
        cur = stats.violations.get(v.locus)
        if cur is None or v.key() < cur.key():
            stats.violations[v.locus] = v
    if want_sample and len(stats.samples) < 6:
        stats.samples.append({"choices": list(ctx.choices),
                              "labels": [str(l) for l in ctx.labels],
                              "notes": _jsonable(ctx.notes)})
    return ctx


def _children(ctx, prefix_len):
    mode, k = _G["mode"], _G["k"]
    out = []
    base_dev = [0]
    d = 0
    for c, f in zip(ctx.choices, ctx.free):
        if c != 0 and not f:
            d += 1
        base_dev.append(d)
    for i in range(prefix_len, len(ctx.choices)):
        n = ctx.arity[i]
        if n <= 1:
            continue
        if mode == "dev" and not ctx.free[i] and base_dev[i] + 1 > k:
            continue
        head = tuple(ctx.choices[:i])
        for alt in range(1, n):
            out.append(head + (alt,))
    return out


def _subtree(prefix, deadline, cap):
    """Depth-first exploration of the whole subtree under prefix (worker side)."""
    stats = Stats()
    stack = [tuple(prefix)]
    n = 0
    while stack:
        p = stack.pop()
        if (cap is not None and n >= cap) or (deadline is not None and n % 64 == 0
                                                and time.time() > deadline):
            stats.capped = True
            break
        ctx = _execute(p, stats, want_sample=(n < 1))
        n += 1
        ch = _children(ctx, len(p))
        ch.reverse()
        stack.extend(ch)
    return stats


def _worker(task):
    prefix, deadline, cap = task
    try:
        return _subtree(prefix, deadline, cap)
    except HarnessError as e:
        s = Stats()
        s.harness_errors.append("prefix=%r: %s" % (list(prefix), e))
        return s


def _expand_worker(prefix):
    """run one prefix (+defaults) and return its statistics and the prefixes of its child subtrees"""
    st = Stats()
    try:
        ctx = _execute(tuple(prefix), st, want_sample=(len(prefix) <= 1))
        return st, _children(ctx, len(prefix))
    except HarnessError as e:
        st.harness_errors.append("prefix=%r: %s" % (list(prefix), e))
        return st, []


class Result(object):
    def __init__(self, stats, mode, k, wall):
        self.stats = stats
        self.mode = mode
        self.k = k
        self.wall = wall


def explore(harness, mode="full", k=None, jobs=None, params=None, repo_root="/repo",
            time_cap=None, exec_cap=None, split_target=None):
    """Enumerate the harness' choice tree.  Returns Stats."""
    assert mode in ("full", "dev")
    if mode == "dev":
        assert k is not None
    jobs = jobs or int(os.environ.get("VERIF_MC_JOBS", "0")) or min(16, os.cpu_count() or 1)
    _G.update(harness=harness, params=params, repo_root=os.path.abspath(repo_root),
              mode=mode, k=k)
    if os.environ.get("VERIF_MC_MAX_CAP"):         # an operator-imposed ceiling on every exploration (reported as a cap when hit)
        time_cap = min(time_cap or 1e9, float(os.environ["VERIF_MC_MAX_CAP"]))
    deadline = (time.time() + time_cap) if time_cap else None
    total = Stats()
    # expand the choice tree level by level (in the pool) until there are enough subtrees to share out
    target = split_target or jobs * 12
    frontier = [()]
    leaves_done = 0
    pool = None
    if jobs > 1:
        pool = multiprocessing.get_context("fork").Pool(jobs)
    try:
        while frontier and len(frontier) < target and leaves_done < 4000:
            if pool is not None and len(frontier) > 1:
                results = pool.map(_expand_worker, frontier, chunksize=1)
            else:
                results = [_expand_worker(p) for p in frontier]
            nxt = []
            for st, children in results:
                total.merge(st)
                nxt.extend(children)
                leaves_done += 1
            frontier = nxt
        if frontier:
            per_task_cap = None
            if exec_cap is not None:
                per_task_cap = max(1, (exec_cap - leaves_done) // max(1, len(frontier)))
            tasks = [(p, deadline, per_task_cap) for p in frontier]
            if pool is None:
                results = [_worker(t) for t in tasks]
            else:
                results = pool.map(_worker, tasks, chunksize=1)
            for r in results:     # merged in prefix order: deterministic
                total.merge(r)
    finally:
        if pool is not None:
            pool.close()
            pool.join()
    if total.harness_errors:
        raise HarnessError("; ".join(total.harness_errors[:3]))
    return total


def replay(harness, choices, labels=None, params=None, repo_root="/repo"):
    """Run one recorded choice vector; returns the Ctx (with its violations)."""
    _G.update(harness=harness, params=params, repo_root=os.path.abspath(repo_root),
              mode="full", k=None)
    stats = Stats()
    ctx0 = Ctx(tuple(choices), expect_labels=labels, params=params)
    ctx = _execute(tuple(choices), stats)
    if labels is not None:
        rec = [str(l) for l in labels]
        now = [str(l) for l in ctx.labels[:len(rec)]]
        if rec != now:
            raise HarnessError("replay: label sequence differs from the recorded one")
    return ctx, stats
