"""Generic object-graph fingerprint: every ndarray (shape, dtype, bytes) and every container key
reachable from the roots, labelled by access path, plus the aliasing partition (which paths lead
to the same ndarray buffer).  It walks vars() recursively, so it does not depend on attribute
names: a refactoring cannot blind it and a hoisted module-level scratch buffer is included when
the module's mutable globals are among the roots."""
import types

import numpy as np


def _canon_scalar(x):
    if isinstance(x, float):
        if x != x:
            return "nan"
        return repr(x)
    return repr(x)


def canon_key(k):
    """stable text for dict keys / small objects (no addresses)"""
    if k is None or isinstance(k, (bool, int, str, bytes)):
        return repr(k)
    if isinstance(k, (float, np.floating)):
        return _canon_scalar(float(k))
    if isinstance(k, np.integer):
        return repr(int(k))
    if isinstance(k, (tuple, list)):
        return "(" + ",".join(canon_key(e) for e in k) + ")"
    if isinstance(k, (set, frozenset)):
        return "{" + ",".join(sorted(canon_key(e) for e in k)) + "}"
    if isinstance(k, np.ndarray):
        return "nd%r%s" % (k.shape, k.tobytes().hex()[:64])
    if isinstance(k, type):
        return "<class %s>" % k.__qualname__
    d = getattr(k, "__dict__", None)
    if d is not None:
        return "%s{%s}" % (type(k).__qualname__, ",".join("%s=%s" % (a, canon_key(v)) for a, v in sorted(d.items())))
    return "<%s>" % type(k).__qualname__


def fingerprint(roots, skip_types=()):
    """roots: list of (label, object).  Returns a hashable tuple."""
    out = []
    seen = {}          # id -> first path  (objects)
    buffers = {}       # data pointer -> first path (arrays)
    keep = []          # keep objects alive so ids stay unique during the walk

    def walk(x, path, depth):
        if depth > 12:
            out.append((path, "depth"))
            return
        if x is None or isinstance(x, (bool, int, str, bytes)):
            out.append((path, repr(x)))
            return
        if isinstance(x, (float, np.floating)):
            out.append((path, _canon_scalar(float(x))))
            return
        if isinstance(x, np.integer):
            out.append((path, repr(int(x))))
            return
        if isinstance(x, np.ndarray):
            b = x
            while isinstance(b.base, np.ndarray):
                b = b.base
            ptr = b.__array_interface__["data"][0] if x.size else 0
            alias = buffers.get(ptr) if x.size else None
            if x.size:
                buffers.setdefault(ptr, path)
            a = x
            if a.dtype.kind == "f":
                a = np.where(np.isnan(a), np.float64("nan"), a)
            data = a.tobytes() if a.dtype != object else repr(a.tolist()).encode()
            mask = b""
            if isinstance(x, np.ma.MaskedArray):
                mask = np.ma.getmaskarray(x).tobytes()
            out.append((path, "nd", x.shape, str(x.dtype), data, mask, alias))
            return
        if isinstance(x, (types.FunctionType, types.BuiltinFunctionType, types.MethodType, types.ModuleType, type)):
            out.append((path, "<callable/module/class>"))
            return
        if skip_types and isinstance(x, skip_types):
            out.append((path, "<skipped %s>" % type(x).__qualname__))
            return
        oid = id(x)
        if oid in seen:
            out.append((path, "alias-of", seen[oid]))
            return
        seen[oid] = path
        keep.append(x)
        if isinstance(x, dict):
            items = sorted(((canon_key(k), v) for k, v in x.items()), key=lambda kv: kv[0])
            out.append((path, "dict", len(items)))
            for ck, v in items:
                walk(v, path + "[" + ck + "]", depth + 1)
            return
        if isinstance(x, (list, tuple)):
            out.append((path, type(x).__name__, len(x)))
            for i, v in enumerate(x):
                walk(v, "%s[%d]" % (path, i), depth + 1)
            return
        if isinstance(x, (set, frozenset)):
            out.append((path, "set", tuple(sorted(canon_key(e) for e in x))))
            return
        if isinstance(x, range):
            out.append((path, repr(x)))
            return
        d = getattr(x, "__dict__", None)
        if d is not None:
            out.append((path, "obj", type(x).__qualname__))
            for a in sorted(d):
                walk(d[a], path + "." + a, depth + 1)
            return
        out.append((path, "<%s>" % type(x).__qualname__))

    for label, obj in roots:
        walk(obj, label, 0)
    return tuple(out)


def module_globals(mod):
    """mutable module-level objects of a module (containers, arrays, instances), as roots"""
    roots = []
    for name, v in sorted(vars(mod).items()):
        if name.startswith("__"):
            continue
        if isinstance(v, (types.ModuleType, types.FunctionType, types.BuiltinFunctionType, type)):
            continue
        if isinstance(v, (dict, list, set, np.ndarray)):
            roots.append(("%s.%s" % (mod.__name__, name), v))
    return roots


def class_attrs(mod):
    """mutable class-level attributes of the classes of a module"""
    roots = []
    for cname, c in sorted(vars(mod).items()):
        if not isinstance(c, type) or getattr(c, "__module__", None) != mod.__name__:
            continue
        for a, v in sorted(vars(c).items()):
            if a.startswith("__"):
                continue
            if isinstance(v, (dict, list, set, np.ndarray)):
                roots.append(("%s.%s.%s" % (mod.__name__, cname, a), v))
    return roots
