"""Closing the system: in-process driver runner, scratch directories, figure access."""
import atexit
import contextlib
import io
import os
import shutil
import sys
import tempfile
import warnings

from .explore import crash_site
from . import core

_SCRATCH = None


def scratch():
    """Per-process scratch directory (RAM-backed when possible), removed at exit."""
    global _SCRATCH
    if _SCRATCH is None or _SCRATCH[0] != os.getpid():
        root = os.environ.get("VERIF_MC_TMP")
        if not root:
            root = "/dev/shm" if os.path.isdir("/dev/shm") and os.access("/dev/shm", os.W_OK) else tempfile.gettempdir()
        d = tempfile.mkdtemp(prefix="verifmc-%d-" % os.getpid(), dir=root)
        _SCRATCH = (os.getpid(), d)
        atexit.register(shutil.rmtree, d, True)
        # multiprocessing workers exit through os._exit: register there too
        try:
            import multiprocessing.util as mu
            mu.Finalize(None, shutil.rmtree, args=(d, True), exitpriority=0)
        except Exception:
            pass
    return _SCRATCH[1]


def write_file(name, text, mode="w"):
    path = os.path.join(scratch(), name)
    with open(path, mode) as f:
        f.write(text)
    return path


class CliResult(object):
    __slots__ = ("kind", "stdout", "code", "exc", "site", "in_repo")

    def __init__(self):
        self.kind = None      # 'ok' | 'exit' | 'crash'
        self.stdout = ""
        self.code = None
        self.exc = None
        self.site = None
        self.in_repo = False

    def __repr__(self):
        return "<Cli %s code=%r site=%r out=%r>" % (self.kind, self.code, self.site, self.stdout[:120])


def strip_ansi(s):
    import re
    return re.sub(r"\x1b\[[0-9;]*m", "", s)


def run_cli(argv, seed_random=True):
    """verif.driver.run(['verif'] + argv) with stdout captured.
    kind: 'ok' (returned), 'exit' (SystemExit; .code), 'crash' (any other exception; .site)."""
    import numpy as np
    import matplotlib
    import matplotlib.pyplot as mpl
    import verif.driver
    r = CliResult()
    buf = io.StringIO()
    if seed_random:
        np.random.seed(12345)
    mpl.close("all")
    old_err = np.geterr()
    with warnings.catch_warnings():
        warnings.simplefilter("ignore")
        np.seterr(all="ignore")
        try:
            with contextlib.redirect_stdout(buf):
                verif.driver.run(["verif"] + [str(a) for a in argv])
            r.kind = "ok"
        except SystemExit as e:
            r.kind = "exit"
            r.code = e.code
        except BaseException as e:  # noqa
            r.kind = "crash"
            r.exc = e
            r.in_repo, r.site = crash_site(e, core.REPO)
        finally:
            np.seterr(**old_err)
    r.stdout = strip_ansi(buf.getvalue())
    return r


def quiet_call(fn, *args, **kwargs):
    """Call fn with stdout swallowed and numpy warnings off.  Returns (kind, value|exc, site)."""
    import numpy as np
    buf = io.StringIO()
    old_err = np.geterr()
    with warnings.catch_warnings():
        warnings.simplefilter("ignore")
        np.seterr(all="ignore")
        try:
            with contextlib.redirect_stdout(buf):
                v = fn(*args, **kwargs)
            return ("ok", v, None, strip_ansi(buf.getvalue()))
        except SystemExit as e:
            return ("exit", e, None, strip_ansi(buf.getvalue()))
        except BaseException as e:  # noqa
            in_repo, site = crash_site(e, core.REPO)
            if not in_repo:
                raise
            return ("crash", e, site, strip_ansi(buf.getvalue()))
        finally:
            np.seterr(**old_err)
